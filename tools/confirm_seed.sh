#!/bin/bash
# usage: confirm_seed.sh <worktree> <seeddir> <demo package dir (relative)>
# Confirms a seeded change: builds, existing tests pass with it, demo fails with it, demo passes without it.
export GOFLAGS=-mod=mod GOPROXY=off GOSUMDB=off GOTOOLCHAIN=local
WT=$(readlink -f "$1"); SD=$(readlink -f "$2"); PKG=$3
case "$SD" in "$WT"/*) echo "seed directory must be OUTSIDE the worktree (git clean would delete it)"; exit 2;; esac
cd "$WT" || exit 2
git checkout -q -- . ; git clean -fdq
git apply "$SD/patch.diff" || { echo "PATCH DOES NOT APPLY"; exit 2; }
go build ./... 2>&1 | grep -v "ld: \|prysm_comp" | head -5
echo "== existing tests with change"
timeout 900 go test -vet=off -count=1 ./fsm/... ./client/services/... ./client/repositories/... ./client/modules/... ./storage/file_storage/... ./pkg/... ./airgapped/... ./cmd/dc4bc_cli/... 2>&1 | grep -v "no test files" | grep -v "^ok" | head -10
echo "   (no FAIL lines above = pass)"
cp "$SD/zz_seed_demo_test.go" "$PKG/zz_seed_demo_test.go"
echo "== demo with change (expect FAIL)"
timeout 600 go test -vet=off -count=1 -run 'Seed|seed|Demo' "./$PKG" 2>&1 | tail -3
git checkout -q -- . 
echo "== demo without change (expect ok)"
timeout 600 go test -vet=off -count=1 -run 'Seed|seed|Demo' "./$PKG" 2>&1 | tail -3
rm -f "$PKG/zz_seed_demo_test.go"; git clean -fdq
