#!/bin/bash
# usage: store_seed.sh <ID> <name> <seeddir> <demo pkg dir> <needs> <check_result> <tried_with> ; stores a confirmed seeded change and removes its worktree
ID=$1; NAME=$2; SD=$3; PKG=$4; NEEDS=$5; RES=$6; TRIED=$7
D=/verif/seeded/$NAME; mkdir -p $D
cp $SD/patch.diff $SD/zz_seed_demo_test.go $SD/notes.md $D/
jq -n --arg p "$ID" --arg d "$PKG" --arg n "$NEEDS" --arg r "$RES" --arg t "$TRIED" '{property:$p, demo_package_dir:$d, needs_to_manifest:$n, confirmed_by:"tools/confirm_seed.sh in a scratch worktree: go build ./... ok; existing tests pass with the change; demo fails with the change and passes without", check_result:$r, tried_with:$t, author:"independent sub-agent given the property text, the list of relevant files and a scratch worktree"}' > $D/meta.json
