#!/bin/bash
# usage: try_seed.sh <patch.diff> <check id>...
# Runs the registered checks against a scratch worktree of /repo with the seeded change applied (REPO_DIR), so /repo itself
# is never modified and the evidence of the real tree is not overwritten (GOSX_EVIDENCE_DIR). Replays go to /tmp as well.
P=$(readlink -f "$1"); shift
cd /verif
WT=/tmp/wt_try_$$
git -C /repo worktree add --detach $WT ${SEED_BASE:-HEAD} >/dev/null 2>&1 || { echo "cannot create worktree"; exit 2; }
trap "git -C /repo worktree remove --force $WT >/dev/null 2>&1; rm -rf $WT /tmp/try_evidence_$$" EXIT
git -C $WT apply "$P" || { echo "patch does not apply"; exit 2; }
export REPO_DIR=$WT GOSX_EVIDENCE_DIR=/tmp/try_evidence_$$
for c in "$@"; do
  timeout 1200 ./check $c quick > /tmp/try_${TRY_TAG}$c.log 2>&1; rc=$?
  echo "$c exit=$rc: $(grep -c '^VIOLATION' /tmp/try_${TRY_TAG}$c.log) violations; $(grep '^VIOLATION' -A2 /tmp/try_${TRY_TAG}$c.log | head -6 | tr '\n' ' ' | cut -c1-400)"
done
