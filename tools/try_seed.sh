#!/bin/bash
# usage: try_seed.sh <patch.diff> <check id>...   — applies a seeded change to /repo, runs the checks, reverts.
P=$1; shift
cd /verif
export GOSX_EVIDENCE_DIR=/tmp/try_evidence
git -C /repo apply "$P" || { echo "patch does not apply to /repo"; exit 2; }
for c in "$@"; do
  timeout 900 ./check $c quick > /tmp/try_$c.log 2>&1; rc=$?
  echo "$c exit=$rc: $(grep -c '^VIOLATION' /tmp/try_$c.log) violations; $(grep '^VIOLATION' -A2 /tmp/try_$c.log | head -6 | tr '\n' ' ' | cut -c1-400)"
done
git -C /repo checkout -- .
git -C /repo status --short
