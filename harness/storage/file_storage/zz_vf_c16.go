package file_storage

// C16: the file bulletin board is an append-only, gap-free, totally ordered log.

import (
	"os"
	"strconv"

	"github.com/lidofinance/dc4bc/internal/vf"
	"github.com/lidofinance/dc4bc/storage"
)

const vfReaderLimit = 1024 * 1024 // the reader (GetMessages) accepts lines up to 1 MiB

func vfMsg(i int) storage.Message {
	is := strconv.Itoa(i)
	return storage.Message{
		DkgRoundID: "round", Event: "event_x", SenderAddr: "user" + is,
		// the payload size is the variable: an abstract byte string of symbolic length
		Data:      vf.OpaqueBytes("m" + is + ".data"),
		Signature: []byte("sig"),
	}
}

func vfPath() (string, string) {
	dir := os.TempDir()
	tag := vf.Param("tag")
	data := dir + "/vf_c16_" + tag + ".data"
	lock := dir + "/vf_c16_" + tag + ".lock"
	return data, lock
}

// VF_C16_Append: k messages are sent through two separate handles (every assignment of messages to handles); every message gets the offset
// equal to its position; a fresh reader sees all of them in order with those offsets.
func VF_C16_Append() {
	k := vf.ParamInt("k")
	data, lock := vfPath()
	os.Remove(data)
	defer os.Remove(data)
	w1, err1 := NewFileStorage(data, lock)
	w2, err2 := NewFileStorage(data, lock)
	if err1 != nil || err2 != nil {
		vf.Unreachable("open")
		return
	}
	for i := 0; i < k; i++ {
		m := vfMsg(i)
		// every message must be one the reader accepts: its stored line is shorter than 1 MiB.
		// base64 of the payload dominates the line: 4/3*len + ~200 bytes of envelope
		vf.Assume(len(m.Data) < 700000)
		// which of the two handles sends is free for every message (the first one by symmetry)
		w := w1
		if i > 0 && vf.Choose("writer"+strconv.Itoa(i), 2) == 1 {
			w = w2
		}
		msgs := []storage.Message{m}
		err := w.Send(msgs...)
		vf.Assert("send-succeeds", err == nil)
		if err != nil {
			return
		}
		// C16: offset assigned = position in the log
		vf.Assert("offset-is-position", msgs[0].Offset == uint64(i))
	}
	r, err := NewFileStorage(data, lock)
	if err != nil {
		vf.Unreachable("open-reader")
		return
	}
	all, err := r.GetMessages(0)
	vf.Assert("read-succeeds", err == nil)
	if err != nil {
		return
	}
	vf.Assert("read-from-k:count", len(all) == k)
	for i := 0; i < len(all) && i < k; i++ {
		vf.Assert("read-from-k:order", all[i].SenderAddr == "user"+strconv.Itoa(i))
		vf.Assert("offsets-gap-free", all[i].Offset == uint64(i))
	}
	// reading from every offset o returns exactly the entries o..
	for o := 0; o <= k; o++ {
		part, err := r.GetMessages(uint64(o))
		vf.Assert("read-succeeds", err == nil)
		if err != nil {
			return
		}
		vf.Assert("read-from-k:count", len(part) == k-o)
		for i := range part {
			vf.Assert("read-from-k:order", part[i].SenderAddr == "user"+strconv.Itoa(o+i))
		}
	}
	vf.Assert("witness", false)
}

// VF_C16_Ignore: every ignore list (any subset of the stored entries, by id or by offset) combined with every read
// offset: the result is exactly the entries from position o onward, in order, minus the ignored ones.
func VF_C16_Ignore() {
	data, lock := vfPath()
	os.Remove(data)
	defer os.Remove(data)
	w, err := NewFileStorage(data, lock)
	if err != nil {
		vf.Unreachable("open")
		return
	}
	const k = 3
	for i := 0; i < k; i++ {
		msgs := []storage.Message{{DkgRoundID: "round", Event: "e", SenderAddr: "user" + strconv.Itoa(i), Data: []byte("d")}}
		if err := w.Send(msgs...); err != nil {
			vf.Unreachable("send")
			return
		}
	}
	all, _ := w.GetMessages(0)
	if len(all) != k {
		vf.Unreachable("read")
		return
	}
	subset := vf.Choose("ignored-subset", 1<<k)
	byOffset := vf.Choose("by-offset", 2) == 1
	var names []string
	for i := 0; i < k; i++ {
		if subset&(1<<uint(i)) != 0 {
			if byOffset {
				names = append(names, strconv.Itoa(i))
			} else {
				names = append(names, all[i].ID)
			}
		}
	}
	_ = w.IgnoreMessages(names, byOffset)
	o := vf.Choose("read-offset", k+1)
	got, err := w.GetMessages(uint64(o))
	vf.Assert("ignore-lists:read", err == nil)
	var want []int
	for i := o; i < k; i++ {
		if subset&(1<<uint(i)) == 0 {
			want = append(want, i)
		}
	}
	vf.Assert("ignore-lists:count", len(got) == len(want))
	for j := 0; j < len(got) && j < len(want); j++ {
		vf.Assert("ignore-lists:exactly-the-others-in-order", vf.And(got[j].SenderAddr == "user"+strconv.Itoa(want[j]), got[j].Offset == uint64(want[j])))
	}
	w.UnignoreMessages()
	got, _ = w.GetMessages(0)
	vf.Assert("ignore-lists:unignore", len(got) == k)
	vf.Assert("witness", false)
}
