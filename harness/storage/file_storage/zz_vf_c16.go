package file_storage

// C16: the file bulletin board is an append-only, gap-free, totally ordered log.

import (
	"os"
	"strconv"

	"github.com/lidofinance/dc4bc/internal/vf"
	"github.com/lidofinance/dc4bc/storage"
)

const vfReaderLimit = 1024 * 1024 // the reader (GetMessages) accepts lines up to 1 MiB

func vfMsg(i int) storage.Message {
	is := strconv.Itoa(i)
	m := storage.Message{
		DkgRoundID: "round" + is, Event: "event_x" + is, SenderAddr: "user" + is, RecipientAddr: "to" + is,
		// the payload size is the variable: an abstract byte string of symbolic length
		Data:      vf.OpaqueBytes("m" + is + ".data"),
		Signature: []byte("sig" + is),
	}
	return m
}

// vfSame: the entry read back is the entry that was sent, field by field (a nil and an empty byte string are the same
// payload: JSON does not distinguish them on the way back). The payload of a non-bare message is an abstract byte string:
// it is compared as the same abstract value when the engine can tell, and by emptiness otherwise.
func vfSame(got, sent storage.Message) bool {
	same := vf.And(got.DkgRoundID == sent.DkgRoundID, got.Event == sent.Event, got.SenderAddr == sent.SenderAddr,
		got.RecipientAddr == sent.RecipientAddr, got.ID == sent.ID, vf.BytesEq(got.Signature, sent.Signature))
	if sent.Signature == nil { // bare message (vfMsg): no payload came back either
		return vf.And(same, len(got.Data) == 0)
	}
	return same
}

func vfPath() (string, string) {
	dir := os.TempDir()
	tag := vf.Param("tag")
	data := dir + "/vf_c16_" + tag + ".data"
	lock := dir + "/vf_c16_" + tag + ".lock"
	return data, lock
}

// VF_C16_Append: k messages are sent through two separate handles (every assignment of messages to handles); every message gets the offset
// equal to its position; a fresh reader sees all of them in order with those offsets.
func VF_C16_Append() {
	k := vf.ParamInt("k")
	data, lock := vfPath()
	os.Remove(data)
	defer os.Remove(data)
	w1, err1 := NewFileStorage(data, lock)
	w2, err2 := NewFileStorage(data, lock)
	if err1 != nil || err2 != nil {
		vf.Unreachable("open")
		return
	}
	sent := make([]storage.Message, 0, k)
	for i := 0; i < k; i++ {
		m := vfMsg(i)
		// every message must be one the reader accepts: its stored line is shorter than 1 MiB.
		// base64 of the payload dominates the line: 4/3*len + ~200 bytes of envelope
		vf.Assume(len(m.Data) < 700000)
		// which of the two handles sends is free for every message (the first one by symmetry)
		w := w1
		if i > 0 && vf.Choose("writer"+strconv.Itoa(i), 2) == 1 {
			w = w2
		}
		msgs := []storage.Message{m}
		err := w.Send(msgs...)
		vf.Assert("send-succeeds", err == nil)
		if err != nil {
			return
		}
		// C16: offset assigned = position in the log
		vf.Assert("offset-is-position", msgs[0].Offset == uint64(i))
		sent = append(sent, msgs[0])
	}
	r, err := NewFileStorage(data, lock)
	if err != nil {
		vf.Unreachable("open-reader")
		return
	}
	all, err := r.GetMessages(0)
	vf.Assert("read-succeeds", err == nil)
	if err != nil {
		return
	}
	vf.Assert("read-from-k:count", len(all) == k)
	for i := 0; i < len(all) && i < k; i++ {
		vf.Assert("read-from-k:order", all[i].SenderAddr == "user"+strconv.Itoa(i))
		vf.Assert("offsets-gap-free", all[i].Offset == uint64(i))
		vf.Assert("read-from-k:content", vfSame(all[i], sent[i]))
	}
	// reading from every offset o returns exactly the entries o..
	for o := 0; o <= k; o++ {
		part, err := r.GetMessages(uint64(o))
		vf.Assert("read-succeeds", err == nil)
		if err != nil {
			return
		}
		vf.Assert("read-from-k:count", len(part) == k-o)
		for i := range part {
			vf.Assert("read-from-k:order", part[i].SenderAddr == "user"+strconv.Itoa(o+i))
			if o+i < len(sent) {
				vf.Assert("read-from-k:content", vfSame(part[i], sent[o+i]))
			}
		}
	}
	vf.Assert("witness", false)
}

// VF_C16_Ignore: every ignore list (any subset of the stored entries, by id or by offset) combined with every read
// offset: the result is exactly the entries from position o onward, in order, minus the ignored ones.
func VF_C16_Ignore() {
	data, lock := vfPath()
	os.Remove(data)
	defer os.Remove(data)
	w, err := NewFileStorage(data, lock)
	if err != nil {
		vf.Unreachable("open")
		return
	}
	const k = 3
	for i := 0; i < k; i++ {
		msgs := []storage.Message{{DkgRoundID: "round", Event: "e", SenderAddr: "user" + strconv.Itoa(i), Data: []byte("d")}}
		if err := w.Send(msgs...); err != nil {
			vf.Unreachable("send")
			return
		}
	}
	all, _ := w.GetMessages(0)
	if len(all) != k {
		vf.Unreachable("read")
		return
	}
	subset := vf.Choose("ignored-subset", 1<<k)
	byOffset := vf.Choose("by-offset", 2) == 1
	var names []string
	for i := 0; i < k; i++ {
		if subset&(1<<uint(i)) != 0 {
			if byOffset {
				names = append(names, strconv.Itoa(i))
			} else {
				names = append(names, all[i].ID)
			}
		}
	}
	_ = w.IgnoreMessages(names, byOffset)
	o := vf.Choose("read-offset", k+1)
	got, err := w.GetMessages(uint64(o))
	vf.Assert("ignore-lists:read", err == nil)
	var want []int
	for i := o; i < k; i++ {
		if subset&(1<<uint(i)) == 0 {
			want = append(want, i)
		}
	}
	vf.Assert("ignore-lists:count", len(got) == len(want))
	for j := 0; j < len(got) && j < len(want); j++ {
		vf.Assert("ignore-lists:exactly-the-others-in-order", vf.And(got[j].SenderAddr == "user"+strconv.Itoa(want[j]), got[j].Offset == uint64(want[j])))
	}
	w.UnignoreMessages()
	got, _ = w.GetMessages(0)
	vf.Assert("ignore-lists:unignore", len(got) == k)
	vf.Assert("witness", false)
}

// VF_C16_Content: what is read back is what was sent, field by field, for every mix of messages with and without a payload
// ("all message sizes from empty"), every read offset and a fresh reader handle. Messages are concrete here (the size
// dependence is VF_C16_Append's subject); the choice points are the bare/non-bare pattern and the read offset.
func VF_C16_Content() {
	data, lock := vfPath()
	os.Remove(data)
	defer os.Remove(data)
	w, err := NewFileStorage(data, lock)
	if err != nil {
		vf.Unreachable("open")
		return
	}
	const k = 3
	pat := vf.Choose("bare-pattern", 1<<k) // bit i set: message i carries no payload, no signature and no recipient
	var sent []storage.Message
	for i := 0; i < k; i++ {
		is := strconv.Itoa(i)
		m := storage.Message{DkgRoundID: "round" + is, Event: "event_x" + is, SenderAddr: "user" + is, RecipientAddr: "to" + is,
			Data: []byte("payload" + is), Signature: []byte("sig" + is)}
		if pat&(1<<uint(i)) != 0 {
			if i == 1 {
				m.Data, m.Signature, m.RecipientAddr = []byte{}, []byte{}, ""
			} else {
				m.Data, m.Signature, m.RecipientAddr = nil, nil, ""
			}
		}
		msgs := []storage.Message{m}
		if err := w.Send(msgs...); err != nil {
			vf.Unreachable("send")
			return
		}
		sent = append(sent, msgs[0])
	}
	r, err := NewFileStorage(data, lock)
	if err != nil {
		vf.Unreachable("open-reader")
		return
	}
	o := vf.Choose("read-offset", k+1)
	got, err := r.GetMessages(uint64(o))
	vf.Assert("read-from-k:read", err == nil)
	vf.Assert("read-from-k:count", len(got) == k-o)
	for j := 0; j < len(got) && o+j < k; j++ {
		g, s := got[j], sent[o+j]
		vf.Assert("read-from-k:content", vf.And(g.ID == s.ID, g.DkgRoundID == s.DkgRoundID, g.Event == s.Event,
			g.SenderAddr == s.SenderAddr, g.RecipientAddr == s.RecipientAddr, g.Offset == uint64(o+j),
			string(g.Data) == string(s.Data), string(g.Signature) == string(s.Signature)))
	}
	vf.Assert("witness", false)
}
