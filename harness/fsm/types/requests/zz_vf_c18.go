package requests

// C18 (expansion of signing tasks): arbitrary decoded tasks never crash TasksToMessages.

import (
	"strconv"

	"github.com/lidofinance/dc4bc/internal/vf"
)

func VF_C18_Tasks() {
	nt := vf.ParamInt("ntasks")
	var tasks []SigningTask
	for i := 0; i < nt; i++ {
		is := strconv.Itoa(i)
		t := SigningTask{MessageID: vf.Str("t" + is + ".id"), File: vf.Str("t" + is + ".file")}
		if vf.Choose("t"+is+".kind", 2) == 0 {
			t.Payload = vf.Bytes("t"+is+".payload", vf.Choose("t"+is+".plen", 2))
			t.RangeStart, t.RangeEnd = vf.Int("t"+is+".rs"), vf.Int("t"+is+".re")
		} else {
			rs, re := vf.Int("t"+is+".rs"), vf.Int("t"+is+".re")
			// bound (stated): ranges starting inside the list are at most 2 long and lie in its first 64 or last 2 positions;
			// ranges starting outside the list are arbitrary
			vf.Assume(vf.Or(rs < 0, rs >= 18632, vf.And(rs >= 0, rs < 64, re <= rs+2), vf.And(rs >= 18630, rs < 18632, re <= rs+3)))
			t.RangeStart, t.RangeEnd = rs, re
		}
		tasks = append(tasks, t)
	}
	panicked := false
	var out []MessageToSign
	var err error
	func() {
		defer func() {
			if r := recover(); r != nil {
				panicked = true
			}
		}()
		out, err = TasksToMessages(tasks)
	}()
	vf.Assert("nopanic:TasksToMessages", !panicked)
	if !panicked && err == nil {
		for _, m := range out {
			vf.Assert("expansion-entries-well-formed", vf.Or(!m.BakedDataPayload, len(m.Payload) == 32))
		}
	}
	vf.Assert("witness", false)
}
