package requests

// C17: baked withdrawal-credential messages equal the consensus-spec signing roots.
// The reference model below is written from the Ethereum consensus specification (ssz hash_tree_root,
// compute_domain, compute_signing_root) and carries its own copies of the five constants.

import (
	"crypto/sha256"
	"encoding/binary"
	"strconv"
	"strings"

	"github.com/lidofinance/dc4bc/internal/vf"
	"github.com/lidofinance/dc4bc/pkg/wc_rotation"
)

var (
	specDomainType   = [4]byte{0x0A, 0x00, 0x00, 0x00} // DOMAIN_BLS_TO_EXECUTION_CHANGE
	specForkVersion  = [4]byte{0, 0, 0, 0}             // GENESIS_FORK_VERSION (mainnet)
	specGenesisRoot  = [32]byte{0x4b, 0x36, 0x3d, 0xb9, 0x4e, 0x28, 0x61, 0x20, 0xd7, 0x6e, 0xb9, 0x05, 0x34, 0x0f, 0xdd, 0x4e, 0x54, 0xbf, 0xe9, 0xf0, 0x6b, 0xf3, 0x3f, 0xf6, 0xcf, 0x5a, 0xd2, 0x7f, 0x51, 0x1b, 0xfe, 0x95}
	specLidoBLSKey   = [48]byte{0xb6, 0x7a, 0xca, 0x71, 0xf0, 0x4b, 0x67, 0x30, 0x37, 0xb5, 0x40, 0x09, 0xb7, 0x60, 0xf1, 0x96, 0x1f, 0x38, 0x36, 0xe5, 0x71, 0x41, 0x41, 0xc8, 0x92, 0xaf, 0xdb, 0x75, 0xec, 0x08, 0x34, 0xdc, 0xe6, 0x78, 0x4d, 0x9c, 0x72, 0xed, 0x8a, 0xd7, 0xdb, 0x32, 0x8c, 0xff, 0x8f, 0xe9, 0xf1, 0x3e}
	specExecAddress  = [20]byte{0xb9, 0xd7, 0x93, 0x48, 0x78, 0xb5, 0xfb, 0x96, 0x10, 0xb3, 0xfe, 0x8a, 0x5e, 0x44, 0x1e, 0x8f, 0xad, 0x7e, 0x29, 0x3f}
	specBakedEntries = 18632
)

func specH(a, b [32]byte) [32]byte {
	var buf [64]byte
	copy(buf[:32], a[:])
	copy(buf[32:], b[:])
	return sha256.Sum256(buf[:])
}

func specChunk(b []byte) [32]byte { // right-padded with zeros
	var c [32]byte
	copy(c[:], b)
	return c
}

// specSigningRoot = compute_signing_root(BLSToExecutionChange(v, key, addr), compute_domain(type, version, root))
func specSigningRoot(v uint64) [32]byte {
	var le [8]byte
	binary.LittleEndian.PutUint64(le[:], v)
	leaf0 := specChunk(le[:])
	leaf1 := specH(specChunk(specLidoBLSKey[:32]), specChunk(specLidoBLSKey[32:]))
	leaf2 := specChunk(specExecAddress[:])
	var leaf3 [32]byte
	objRoot := specH(specH(leaf0, leaf1), specH(leaf2, leaf3))
	forkDataRoot := specH(specChunk(specForkVersion[:]), specGenesisRoot)
	var domain [32]byte
	copy(domain[:4], specDomainType[:])
	copy(domain[4:], forkDataRoot[:28])
	return specH(objRoot, domain)
}

// VF_C17_Root: for every uint64 validator index the implementation equals the specification.
func VF_C17_Root() {
	v := vf.Uint64("v")
	got, err := wc_rotation.GetSigningRoot(v)
	vf.Assert("root-no-error", err == nil)
	want := specSigningRoot(v)
	vf.Assert("root-equals-spec", got == want)
}

// VF_C17_Constants: the five constants equal the spec / mainnet values.
func VF_C17_Constants() {
	vf.Assert("constants:domain-type", wc_rotation.DomainBlsToExecutionChange == specDomainType)
	vf.Assert("constants:fork-version", wc_rotation.GenesisForkVersion == specForkVersion)
	vf.Assert("constants:genesis-validators-root", wc_rotation.GenesisValidatorRoot == specGenesisRoot)
	vf.Assert("constants:lido-bls-key", wc_rotation.LidoBlsPubKeyBB == specLidoBLSKey)
	vf.Assert("constants:execution-address", wc_rotation.ToExecutionAddress == specExecAddress)
	lines := strings.Split(wc_rotation.ValidatorsIndexes, "\n")
	vf.Assert("constants:list-length", len(lines) == specBakedEntries+1 && lines[specBakedEntries] == "")
}

func vfC17Call(p int) (m MessageToSign, err error, panicked bool) {
	defer func() {
		if r := recover(); r != nil {
			panicked = true
		}
	}()
	m, err = ReconstructBakedMessage(p)
	return
}

// VF_C17_OutOfRange: a position outside the list is refused with an error, never a crash or a message.
func VF_C17_OutOfRange() {
	p := vf.Int("p")
	vf.Assume(vf.Or(p < 0, p >= specBakedEntries))
	_, err, panicked := vfC17Call(p)
	vf.Assert("position-out-of-range-errors:no-crash", !panicked)
	if !panicked {
		vf.Assert("position-out-of-range-errors:error", err != nil)
	}
}

// VF_C17_Block: positions base .. base+63 (symbolic inside the block).
func VF_C17_Block() {
	base := vf.ParamInt("base")
	off := vf.Int("off")
	vf.Assume(vf.And(off >= 0, off < 64, base+off < specBakedEntries))
	p := base + off
	m, err, panicked := vfC17Call(p)
	vf.Assert("table:no-crash", !panicked)
	if panicked {
		return
	}
	vf.Assert("table:no-error", err == nil)
	if err != nil {
		return
	}
	pc := vf.Concrete(p)
	idx, perr := strconv.ParseUint(m.MessageID, 10, 64)
	vf.Assert("table:well-formed-index", perr == nil && strconv.FormatUint(idx, 10) == m.MessageID)
	if perr != nil {
		return
	}
	vf.Assert("table:file-name", m.File == "bakedrange"+strconv.Itoa(pc))
	vf.Assert("table:baked-flag", m.BakedDataPayload)
	want := specSigningRoot(idx)
	vf.Assert("table:payload-is-spec-root", vf.BytesEq(m.Payload, want[:]))
	vf.Record("entry", pc, m.MessageID)
}
