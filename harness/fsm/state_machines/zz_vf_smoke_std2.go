package state_machines

import (
	"fmt"
	"time"

	"github.com/lidofinance/dc4bc/internal/vf"
)

func VF_Smoke_Std2() {
	t0 := vf.Time("t0")
	t1 := t0.Add(3 * time.Second)
	vf.Assert("t.after", t1.After(t0))
	vf.Assert("t.sub", t1.Sub(t0) == 3*time.Second)
	vf.Assert("t.notzero", !t0.IsZero())
	vf.Assert("t.before", t0.Before(t1))
	vf.Assert("t.equal", t1.Equal(t0.Add(3000*time.Millisecond)))
	vf.Assert("t.utc", t0.UTC().Equal(t0))
	vf.Assert("t.unix", t1.Unix()-t0.Unix() <= 3)
	vf.Assert("t.dur", time.Duration(2)*time.Second == 2*time.Second)
	vf.Assert("f.sprint", fmt.Sprint("a", 1) == "a1")
	vf.Assert("f.03d", fmt.Sprintf("%03d", 7) == "007")
	vf.Assert("f.x", fmt.Sprintf("%x", 255) == "ff")
	vf.Assert("f.q", fmt.Sprintf("%q", "s") == "\"s\"")
	vf.Assert("f.v", fmt.Sprintf("%v", []int{1}) == "[1]")
	vf.Assert("f.t", fmt.Sprintf("%t", true) == "true")
	vf.Assert("f.ln", fmt.Sprintln("a") == "a\n")
	vf.Assert("f.s", fmt.Sprintf("%s-%d-%v", "a", 5, "b") == "a-5-b")
	vf.Assert("witness", false)
}
