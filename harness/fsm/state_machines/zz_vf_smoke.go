package state_machines

import (
	"github.com/lidofinance/dc4bc/fsm/state_machines/signature_proposal_fsm"
	"github.com/lidofinance/dc4bc/fsm/types/requests"
	"github.com/lidofinance/dc4bc/internal/vf"
)

func VF_Smoke() {
	inst, err := Create("round1")
	if err != nil {
		vf.Unreachable("create")
		return
	}
	t := vf.Int("t")
	req := requests.SignatureProposalParticipantsListRequest{
		Participants: []*requests.SignatureProposalParticipantsEntry{
			{Username: "user0", PubKey: []byte("0123456789ab"), DkgPubKey: []byte("0123456789ab")},
			{Username: "user1", PubKey: []byte("0123456789ab"), DkgPubKey: []byte("0123456789ab")},
		},
		SigningThreshold: t,
		CreatedAt:        vf.Time("now"),
	}
	resp, dump, err := inst.Do(signature_proposal_fsm.EventInitProposal, req)
	if err != nil {
		vf.Assert("rejected-iff-bad-t", vf.Or(t < 2, t > 2))
		return
	}
	vf.Assert("accepted-iff-t2", t == 2)
	vf.Assert("state", resp.State == signature_proposal_fsm.StateAwaitParticipantsConfirmations)
	inst2, err := FromDump(dump)
	vf.Assert("restore", err == nil)
	if err != nil {
		return
	}
	st, _ := inst2.State()
	vf.Record("state", string(st))
	vf.Assert("witness", false)
}
