package state_machines

import (
	"sync"

	"github.com/lidofinance/dc4bc/internal/vf"
)

// VF_Smoke_Goroutines: engine self-test for go statements, channels, WaitGroup and Mutex (worker pool pattern).
func VF_Smoke_Goroutines() {
	x := vf.Int("x")
	vf.Assume(x >= 0 && x < 100)
	jobs := make(chan int)
	results := make([]int, 4)
	var wg sync.WaitGroup
	var mu sync.Mutex
	total := 0
	for w := 0; w < 3; w++ {
		wg.Add(1)
		go func() {
			defer wg.Done()
			for j := range jobs {
				results[j] = x + j
				mu.Lock()
				total += x + j
				mu.Unlock()
			}
		}()
	}
	for j := 0; j < 4; j++ {
		jobs <- j
	}
	close(jobs)
	wg.Wait()
	vf.Assert("pool-results", results[0] == x && results[3] == x+3)
	vf.Assert("pool-total", total == 4*x+6)
	done := make(chan struct{})
	var got int
	go func() {
		got = x * 2
		close(done)
	}()
	<-done
	vf.Assert("signal", got == 2*x)
	vf.Assert("witness", false)
}
