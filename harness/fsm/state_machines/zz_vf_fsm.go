package state_machines

// Harness: one symbolic step of the round FSM from an abstract state (DESIGN §2, Appendix E).
// Shared by C05, C06, C19, C02. Ordinary Go: interpreted symbolically by gosx, compiled natively for replays.

import (
	"crypto/ed25519"
	"encoding/json"
	"strconv"
	"strings"
	"time"

	"github.com/corestario/kyber/pairing/bls12381"

	"github.com/lidofinance/dc4bc/fsm/fsm"
	"github.com/lidofinance/dc4bc/fsm/state_machines/internal"
	"github.com/lidofinance/dc4bc/fsm/types/requests"
	"github.com/lidofinance/dc4bc/fsm/types/responses"
	"github.com/lidofinance/dc4bc/internal/vf"
)

// ---- oracle: phase structure, written from the property statement (not read from the transition tables) ----

const (
	vfIdle        = "__idle"
	vfSigAwait    = "state_sig_proposal_await_participants_confirmations"
	vfSigCancelP  = "state_sig_proposal_canceled_by_participant"
	vfSigCancelT  = "state_sig_proposal_canceled_by_timeout"
	vfSigDone     = "state_sig_proposal_collected"
	vfCommits     = "state_dkg_commits_await_confirmations"
	vfCommitsErr  = "state_dkg_commits_await_canceled_by_error"
	vfCommitsTO   = "state_dkg_commits_await_canceled_by_timeout"
	vfDeals       = "state_dkg_deals_await_confirmations"
	vfDealsErr    = "state_dkg_deals_await_canceled_by_error"
	vfDealsTO     = "state_dkg_deals_await_canceled_by_timeout"
	vfResponses   = "state_dkg_responses_await_confirmations"
	vfResponsesEr = "state_dkg_responses_await_canceled_by_error"
	vfResponsesTO = "state_dkg_responses_sending_canceled_by_timeout"
	vfMaster      = "state_dkg_master_key_await_confirmations"
	vfMasterErr   = "state_dkg_master_key_await_canceled_by_error"
	vfMasterTO    = "state_dkg_master_key_await_canceled_by_timeout"
	vfMasterDone  = "state_dkg_master_key_collected"
	vfSignIdle    = "stage_signing_idle"
	vfSignAwait   = "state_signing_await_partial_signs"
	vfSignTO      = "state_signing_partial_signs_await_cancelled_by_timeout"
	vfSignErr     = "state_signing_partial_signs_await_cancelled_by_error"
	vfSignDone    = "state_signing_partial_signs_collected"
)

// vfPhase describes one collection phase: its await state, the status values, the events and successor states.
type vfPhase struct {
	await, next, cancelErr, cancelTO string
	evOK, evErr                      string
	stAwait, stOK, stErr             int
}

var vfDkgPhases = []vfPhase{
	{vfCommits, vfDeals, vfCommitsErr, vfCommitsTO, "event_dkg_commit_confirm_received", "event_dkg_commit_confirm_canceled_by_error", 0, 1, 2},
	{vfDeals, vfResponses, vfDealsErr, vfDealsTO, "event_dkg_deal_confirm_received", "event_dkg_deal_confirm_canceled_by_error", 3, 4, 5},
	{vfResponses, vfMaster, vfResponsesEr, vfResponsesTO, "event_dkg_response_confirm_received", "event_dkg_response_confirm_canceled_by_error", 6, 7, 8},
	{vfMaster, vfMasterDone, vfMasterErr, vfMasterTO, "event_dkg_master_key_confirm_received", "event_dkg_master_key_confirm_canceled_by_error", 9, 10, 11},
}

var vfCancelled = map[string]bool{
	vfSigCancelP: true, vfSigCancelT: true, vfCommitsErr: true, vfCommitsTO: true, vfDealsErr: true, vfDealsTO: true,
	vfResponsesEr: true, vfResponsesTO: true, vfMasterErr: true, vfMasterTO: true,
}

// public events (the alphabet a board message can carry) plus one unknown name
var vfEvents = []string{
	"event_sig_proposal_init", "event_sig_proposal_confirm_by_participant", "event_sig_proposal_decline_by_participant",
	"event_dkg_init_process",
	"event_dkg_commit_confirm_received", "event_dkg_commit_confirm_canceled_by_error",
	"event_dkg_deal_confirm_received", "event_dkg_deal_confirm_canceled_by_error",
	"event_dkg_response_confirm_received", "event_dkg_response_confirm_canceled_by_error",
	"event_dkg_master_key_confirm_received", "event_dkg_master_key_confirm_canceled_by_error",
	"event_signing_init", "event_signing_start", "event_signing_partial_sign_received",
	"event_signing_partial_sign_error_received", "event_signing_restart", "event_vf_unknown",
}

// ---- abstract state ----

type vfAbs struct {
	State   string
	N, T    int
	HasSig  bool
	Sig     []int
	HasDkg  bool
	Dkg     []int
	DkgErr  []bool
	DkgData []int // bit0 commit, bit1 deal, bit2 response, bit3 master key
	HasSgn  bool
	Sgn     []int
	SgnErr  []bool
	SgnHas  []bool
	Started bool // a batch id is set
	PolySet bool // PubPolyBz non-empty
	PolyAgr bool // ghost: every announcer so far announced the retained polynomial
	SgnUpd  bool // SigningProposalPayload.UpdatedAt is non-zero (never the case on the pinned tree)
}

func (a *vfAbs) String() string {
	var sb strings.Builder
	sb.WriteString(a.State)
	sb.WriteString(";" + strconv.Itoa(a.N) + ";" + strconv.Itoa(a.T) + ";")
	if !a.HasSig {
		sb.WriteString("-")
	} else {
		for _, s := range a.Sig {
			sb.WriteString(strconv.Itoa(s))
		}
	}
	sb.WriteString(";")
	if !a.HasDkg {
		sb.WriteString("-")
	} else {
		for i := range a.Dkg {
			sb.WriteByte(byte('a' + a.Dkg[i]))
			if a.DkgErr[i] {
				sb.WriteByte('!')
			} else {
				sb.WriteByte('.')
			}
			sb.WriteString(strconv.FormatInt(int64(a.DkgData[i]), 16))
		}
	}
	sb.WriteString(";")
	if !a.HasSgn {
		sb.WriteString("-")
	} else {
		sb.WriteString("q")
		for i := range a.Sgn {
			sb.WriteString(strconv.Itoa(a.Sgn[i]))
			if a.SgnErr[i] {
				sb.WriteByte('!')
			} else {
				sb.WriteByte('.')
			}
			if a.SgnHas[i] {
				sb.WriteByte('h')
			} else {
				sb.WriteByte('.')
			}
		}
	}
	sb.WriteString(";")
	fl := func(b bool, c byte) {
		if b {
			sb.WriteByte(c)
		} else {
			sb.WriteByte('.')
		}
	}
	fl(a.Started, 's')
	fl(a.PolySet, 'P')
	fl(a.PolyAgr, 'p')
	if a.SgnUpd {
		sb.WriteByte('u')
	}
	return sb.String()
}

func vfParseAbs(s string) *vfAbs {
	f := strings.Split(s, ";")
	a := &vfAbs{State: f[0]}
	a.N, _ = strconv.Atoi(f[1])
	a.T, _ = strconv.Atoi(f[2])
	if f[3] != "-" {
		a.HasSig = true
		for i := 0; i < len(f[3]); i++ {
			a.Sig = append(a.Sig, int(f[3][i]-'0'))
		}
	}
	if f[4] != "-" {
		a.HasDkg = true
		for i := 0; i+3 <= len(f[4]); i += 3 {
			a.Dkg = append(a.Dkg, int(f[4][i]-'a'))
			a.DkgErr = append(a.DkgErr, f[4][i+1] == '!')
			d, _ := strconv.ParseInt(f[4][i+2:i+3], 16, 64)
			a.DkgData = append(a.DkgData, int(d))
		}
	}
	if f[5] != "-" {
		a.HasSgn = true
		q := f[5][1:]
		for i := 0; i+3 <= len(q); i += 3 {
			a.Sgn = append(a.Sgn, int(q[i]-'0'))
			a.SgnErr = append(a.SgnErr, q[i+1] == '!')
			a.SgnHas = append(a.SgnHas, q[i+2] == 'h')
		}
	}
	a.Started = f[6][0] == 's'
	a.PolySet = f[6][1] == 'P'
	a.PolyAgr = f[6][2] == 'p'
	a.SgnUpd = len(f[6]) > 3 && f[6][3] == 'u'
	return a
}

// vfAbstract is α: real dump -> abstract state (ghost bit supplied by the caller).
func vfAbstract(d *FSMDump, n int, polyAgr bool) *vfAbs {
	a := &vfAbs{State: string(d.State), N: n, T: vf.Concrete(d.Payload.Threshold), PolyAgr: polyAgr}
	p := d.Payload
	if p.SignatureProposalPayload != nil {
		a.HasSig = true
		for i := 0; i < n; i++ {
			q, ok := p.SignatureProposalPayload.Quorum[i]
			if !ok || q == nil {
				a.Sig = append(a.Sig, 9)
				continue
			}
			a.Sig = append(a.Sig, int(q.Status))
		}
		if len(p.SignatureProposalPayload.Quorum) != n {
			a.Sig = append(a.Sig, 8) // marks an unexpected quorum size
		}
	}
	if p.DKGProposalPayload != nil {
		a.HasDkg = true
		for i := 0; i < n; i++ {
			q, ok := p.DKGProposalPayload.Quorum[i]
			if !ok || q == nil {
				a.Dkg = append(a.Dkg, 15)
				a.DkgErr = append(a.DkgErr, false)
				a.DkgData = append(a.DkgData, 0)
				continue
			}
			a.Dkg = append(a.Dkg, int(q.Status))
			a.DkgErr = append(a.DkgErr, q.Error != nil)
			bits := 0
			if len(q.DkgCommit) > 0 {
				bits |= 1
			}
			if len(q.DkgDeal) > 0 {
				bits |= 2
			}
			if len(q.DkgResponse) > 0 {
				bits |= 4
			}
			if len(q.DkgMasterKey) > 0 {
				bits |= 8
			}
			a.DkgData = append(a.DkgData, bits)
		}
		a.PolySet = len(p.DKGProposalPayload.PubPolyBz) > 0
	}
	if p.SigningProposalPayload != nil {
		a.HasSgn = true
		a.Started = p.SigningProposalPayload.BatchID != ""
		a.SgnUpd = !p.SigningProposalPayload.UpdatedAt.IsZero()
		if len(p.SigningProposalPayload.Quorum) > 0 {
			for i := 0; i < n; i++ {
				q, ok := p.SigningProposalPayload.Quorum[i]
				if !ok || q == nil {
					a.Sgn = append(a.Sgn, 9)
					a.SgnErr = append(a.SgnErr, false)
					a.SgnHas = append(a.SgnHas, false)
					continue
				}
				a.Sgn = append(a.Sgn, int(q.Status))
				a.SgnErr = append(a.SgnErr, q.Error != nil)
				a.SgnHas = append(a.SgnHas, len(q.PartialSigns) > 0)
			}
		}
	}
	return a
}

func vfUser(i int) string { return "user" + strconv.Itoa(i) }

func vfPub(i int) []byte {
	pub, _ := VFKeyPair(i)
	return pub
}

var vfKey = []byte("0123456789ab")

// VFKeyPair returns the deterministic ed25519 communication key pair of participant i (real keys in both modes).
func VFKeyPair(i int) (ed25519.PublicKey, ed25519.PrivateKey) {
	seed := make([]byte, ed25519.SeedSize)
	for k := range seed {
		seed[k] = byte(17*i + k + 1)
	}
	priv := ed25519.NewKeyFromSeed(seed)
	return priv.Public().(ed25519.PublicKey), priv
}

// exported entry points for harnesses of other packages
func VFUser(i int) string                            { return vfUser(i) }
func VFEvents() []string                             { return vfEvents }
func VFRequest(ev string, variant int) []interface{} { return vfRequest(ev, variant) }
func VFPid(args []interface{}) (int, bool)           { return vfPid(args) }

// VFDump builds the dump of abstract state abs for round id (gamma), marshalled.
func VFDump(abs string, round string) ([]byte, *FSMDump) {
	d := vfConcretize(vfParseAbs(abs))
	d.TransactionId = round
	d.Payload.DkgId = round
	bz, _ := json.Marshal(d)
	return bz, d
}

// VFAbsN returns the number of participants of an abstract state.
func VFAbsN(abs string) int { return vfParseAbs(abs).N }

// VFAbstractBytes abstracts a stored dump (alpha).
func VFAbstractBytes(dump []byte, n int) string {
	d := &FSMDump{}
	if err := d.Unmarshal(dump); err != nil {
		return "unparsable"
	}
	return vfAbstract(d, n, false).String()
}

// vfConcretize is γ: abstract state -> dump with that shape and symbolic content.
func vfConcretize(a *vfAbs) *FSMDump {
	p := &internal.DumpedMachineStatePayload{DkgId: "round", Threshold: a.T}
	d := &FSMDump{TransactionId: "round", State: fsm.State(a.State), Payload: p}
	if a.HasSig {
		sp := &internal.SignatureConfirmation{
			Quorum:    make(internal.SignatureProposalQuorum),
			CreatedAt: vf.Time("sig.created"), UpdatedAt: vf.TimeZ("sig.updated"), ExpiresAt: vf.Time("sig.expires"),
		}
		for i := 0; i < a.N; i++ {
			sp.Quorum[i] = &internal.SignatureProposalParticipant{
				Username: vfUser(i), PubKey: vfPub(i), DkgPubKey: vfKey,
				Status:    internal.ConfirmationParticipantStatus(a.Sig[i]),
				Threshold: a.T, UpdatedAt: vf.Time("sig.p" + strconv.Itoa(i) + ".updated"),
			}
		}
		p.SignatureProposalPayload = sp
		p.PubKeys = map[string]ed25519.PublicKey{}
		p.IDs = map[string]int{}
		for i := 0; i < a.N; i++ {
			p.PubKeys[vfUser(i)] = vfPub(i)
			p.IDs[vfUser(i)] = i
		}
		if a.State == vfSigAwait {
			// invariant maintained by the auto-validation: an await state is never expired
			vf.Assume(!sp.ExpiresAt.Before(sp.UpdatedAt))
		}
	}
	if a.HasDkg {
		dp := &internal.DKGConfirmation{
			Quorum:    make(internal.DKGProposalQuorum),
			CreatedAt: vf.Time("dkg.created"), UpdatedAt: vf.TimeZ("dkg.updated"), ExpiresAt: vf.Time("dkg.expires"),
		}
		var sharedKey []byte
		shareKeys := a.State == vfMaster || a.State == vfMasterDone || a.HasSgn
		for i := 0; i < a.N; i++ {
			q := &internal.DKGProposalParticipant{
				Username: vfUser(i), DkgPubKey: vfKey,
				Status:    internal.DKGParticipantStatus(a.Dkg[i]),
				UpdatedAt: vf.Time("dkg.p" + strconv.Itoa(i) + ".updated"),
			}
			is := strconv.Itoa(i)
			if a.DkgData[i]&1 != 0 {
				q.DkgCommit = vf.Bytes("dkg.p"+is+".commit", 1)
			}
			if a.DkgData[i]&2 != 0 {
				q.DkgDeal = vf.Bytes("dkg.p"+is+".deal", 1)
			}
			if a.DkgData[i]&4 != 0 {
				q.DkgResponse = vf.Bytes("dkg.p"+is+".response", 1)
			}
			if a.DkgData[i]&8 != 0 {
				if shareKeys && a.Dkg[i] == 10 {
					// invariant: in the await/collected states all confirmed master keys are equal
					if sharedKey == nil {
						sharedKey = vf.Bytes("dkg.masterkey", 1)
					}
					q.DkgMasterKey = append([]byte{}, sharedKey...)
				} else {
					q.DkgMasterKey = vf.Bytes("dkg.p"+is+".masterkey", 1)
				}
			}
			if a.DkgErr[i] {
				q.Error = &requests.FSMError{ErrorMsg: "err"}
			}
			dp.Quorum[i] = q
		}
		if a.PolySet {
			dp.PubPolyBz = vf.Bytes("dkg.pubpoly", 1)
			if vf.Param("polyshape") != "" {
				// a genuine encoding (dkg.BLSKeyring.PubPolyBytes) of a polynomial with two symbolic commitments
				dp.PubPolyBz = vfPolyJSON(vfPolyCommit(0), vfPolyCommit(1))
			}
		}
		p.DKGProposalPayload = dp
		for _, ph := range vfDkgPhases {
			if a.State == ph.await {
				vf.Assume(!dp.ExpiresAt.Before(dp.UpdatedAt))
			}
		}
	}
	if a.HasSgn {
		sg := &internal.SigningConfirmation{
			Quorum:      make(internal.SigningProposalQuorum),
			InitiatorId: vf.Int("sgn.initiator"),
			CreatedAt:   vf.Time("sgn.created"), UpdatedAt: vf.ZeroTime(), ExpiresAt: vf.Time("sgn.expires"),
		}
		if a.SgnUpd {
			sg.UpdatedAt = vf.Time("sgn.updated")
		}
		if a.Started {
			sg.BatchID = vfStr("sgn.batch", "batch-cur")
			vf.Assume(sg.BatchID != "")
			tasks := []requests.SigningTask{{MessageID: "m1", File: "f1", Payload: vf.Bytes("sgn.payload", 1)}}
			sg.SrcPayload, _ = json.Marshal(tasks)
		}
		for i := range a.Sgn {
			q := &internal.SigningProposalParticipant{
				Username: vfUser(i), Status: internal.SigningParticipantStatus(a.Sgn[i]),
				UpdatedAt: vf.Time("sgn.p" + strconv.Itoa(i) + ".updated"),
			}
			if a.SgnHas[i] {
				q.PartialSigns = map[string][]byte{"m1": vf.Bytes("sgn.p"+strconv.Itoa(i)+".sig", 1)}
			}
			if a.SgnErr[i] {
				q.Error = &requests.FSMError{ErrorMsg: "err"}
			}
			sg.Quorum[i] = q
		}
		p.SigningProposalPayload = sg
		if a.State == vfSignAwait {
			vf.Assume(!sg.ExpiresAt.Before(sg.UpdatedAt))
		}
	}
	return d
}


// ---- symbolic requests ----

func vfBytesLen(name string, maxLen int) []byte {
	n := vf.Choose(name+".len", maxLen+2) - 1 // -1 => nil slice
	if n < 0 {
		return nil
	}
	return vf.Bytes(name, n)
}

// vfStr: an unbounded symbolic string, or (param "shortstr", used by the node-level harnesses whose string reasoning is
// otherwise too slow) a choice among the given constants.
func vfStr(name string, options ...string) string {
	if vf.Param("shortstr") == "" || len(options) == 0 {
		return vf.Str(name)
	}
	return options[vf.Choose(name, len(options))]
}

func vfErrPtr(name string) *requests.FSMError {
	if vf.Choose(name+".nil", 2) == 0 {
		return nil
	}
	return &requests.FSMError{ErrorMsg: "reported"}
}

// vfRequest builds a request for event ev: every field symbolic. variant 1 = a request of a different type,
// variant 2 = no argument at all.
func vfRequest(ev string, variant int) []interface{} {
	if variant == 2 {
		return nil
	}
	if variant == 1 {
		if ev == "event_dkg_init_process" || ev == "event_signing_init" || ev == "event_signing_restart" {
			return []interface{}{requests.SignatureProposalParticipantRequest{ParticipantId: vf.Int("req.pid"), CreatedAt: vf.TimeZ("req.created")}}
		}
		return []interface{}{requests.DefaultRequest{CreatedAt: vf.TimeZ("req.created")}}
	}
	created := vf.TimeZ("req.created")
	switch ev {
	case "event_sig_proposal_init":
		maxn := 3
		if vf.Param("maxn") != "" {
			maxn = vf.ParamInt("maxn")
		}
		np := vf.Choose("req.np", maxn+1)
		var ps []*requests.SignatureProposalParticipantsEntry
		for i := 0; i < np; i++ {
			ps = append(ps, &requests.SignatureProposalParticipantsEntry{Username: vfUser(i), PubKey: vfPub(i), DkgPubKey: vfKey})
		}
		// the opening proposal is decoded from untrusted, unsigned bytes: the list may hold a null entry, and a communication
		// key need not have ed25519's length (shape 0 = well formed; 1 = last entry null; 2 = participant 1's key has 16 bytes,
		// which passes the ">= 10 bytes" validation; 3 = that key has 33 bytes)
		if np >= 2 {
			switch vf.Choose("req.init.shape", 4) {
			case 1:
				ps[np-1] = nil
			case 2:
				ps[1].PubKey = vfPub(1)[:16]
			case 3:
				ps[1].PubKey = append(append([]byte{}, vfPub(1)...), 7)
			}
		}
		return []interface{}{requests.SignatureProposalParticipantsListRequest{Participants: ps, SigningThreshold: vf.Int("req.threshold"), CreatedAt: created}}
	case "event_sig_proposal_confirm_by_participant", "event_sig_proposal_decline_by_participant":
		return []interface{}{requests.SignatureProposalParticipantRequest{ParticipantId: vf.Int("req.pid"), CreatedAt: created}}
	case "event_dkg_init_process", "event_signing_init", "event_signing_restart", "event_vf_unknown":
		return []interface{}{requests.DefaultRequest{CreatedAt: created}}
	case "event_dkg_commit_confirm_received":
		return []interface{}{requests.DKGProposalCommitConfirmationRequest{ParticipantId: vf.Int("req.pid"), Commit: vfBytesLen("req.data", 2), CreatedAt: created}}
	case "event_dkg_deal_confirm_received":
		return []interface{}{requests.DKGProposalDealConfirmationRequest{ParticipantId: vf.Int("req.pid"), Deal: vfBytesLen("req.data", 2), CreatedAt: created}}
	case "event_dkg_response_confirm_received":
		return []interface{}{requests.DKGProposalResponseConfirmationRequest{ParticipantId: vf.Int("req.pid"), Response: vfBytesLen("req.data", 2), CreatedAt: created}}
	case "event_dkg_master_key_confirm_received":
		if vf.Param("polyshape") != "" {
			// announcements that are genuine encodings: the retained polynomial, the same with one more commitment, with a
			// different coefficient, with one commitment less, or the same commitments in another JSON layout
			var poly []byte
			switch vf.Choose("req.polykind", 5) {
			case 0:
				poly = vfPolyJSON(vfPolyCommit(0), vfPolyCommit(1))
			case 1:
				poly = vfPolyJSON(vfPolyCommit(0), vfPolyCommit(1), vfPoint("poly.extra", 7))
			case 2:
				other := vfPoint("poly.other", 9)
				vf.Assume(!vf.BytesEq(other, vfPolyCommit(1)))
				poly = vfPolyJSON(vfPolyCommit(0), other)
			case 3:
				poly = vfPolyJSON(vfPolyCommit(0))
			case 4:
				poly, _ = json.Marshal(struct {
					Share       []byte   `json:"share"`
					Commitments [][]byte `json:"commitments"`
				}{Commitments: [][]byte{vfPolyCommit(0), vfPolyCommit(1)}})
			}
			return []interface{}{requests.DKGProposalMasterKeyConfirmationRequest{ParticipantId: vf.Int("req.pid"), MasterKey: vfBytesLen("req.data", 2), PubPolyBz: poly, CreatedAt: created}}
		}
		return []interface{}{requests.DKGProposalMasterKeyConfirmationRequest{ParticipantId: vf.Int("req.pid"), MasterKey: vfBytesLen("req.data", 2), PubPolyBz: vfBytesLen("req.poly", 1), CreatedAt: created}}
	case "event_dkg_commit_confirm_canceled_by_error", "event_dkg_deal_confirm_canceled_by_error",
		"event_dkg_response_confirm_canceled_by_error", "event_dkg_master_key_confirm_canceled_by_error":
		return []interface{}{requests.DKGProposalConfirmationErrorRequest{ParticipantId: vf.Int("req.pid"), Error: vfErrPtr("req.err"), CreatedAt: created}}
	case "event_signing_start":
		nt := vf.Choose("req.ntasks", 2)
		var tasks []requests.SigningTask
		for i := 0; i < nt; i++ {
			task := requests.SigningTask{MessageID: vfStr("req.task.id", "m1", ""), File: "f", Payload: vfBytesLen("req.task.payload", 1)}
			if vf.Param("norange") == "" {
				task.RangeStart, task.RangeEnd = vf.Int("req.task.rs"), vf.Int("req.task.re")
			}
			tasks = append(tasks, task)
		}
		return []interface{}{requests.SigningBatchProposalStartRequest{BatchID: vfStr("req.batch", "batch-new", ""), ParticipantId: vf.Int("req.pid"), CreatedAt: created, SigningTasks: tasks}}
	case "event_signing_partial_sign_received":
		ns := vf.Choose("req.nsigns", 3)
		var ps []requests.PartialSign
		for i := 0; i < ns; i++ {
			is := strconv.Itoa(i)
			ps = append(ps, requests.PartialSign{MessageID: vfStr("req.sign"+is+".id", "m1", "m2", ""), Sign: vfBytesLen("req.sign"+is+".sig", 1)})
		}
		return []interface{}{requests.SigningProposalBatchPartialSignRequests{BatchID: vfStr("req.batch", "batch-cur", "batch-old", ""), ParticipantId: vf.Int("req.pid"), PartialSigns: ps, CreatedAt: created}}
	case "event_signing_partial_sign_error_received":
		return []interface{}{requests.SignatureProposalConfirmationErrorRequest{ParticipantId: vf.Int("req.pid"), Error: vfErrPtr("req.err"), CreatedAt: created}}
	}
	return []interface{}{requests.DefaultRequest{CreatedAt: created}}
}

func vfCount(xs []int, v int) int {
	c := 0
	for _, x := range xs {
		if x == v {
			c++
		}
	}
	return c
}

// vfPid extracts the claimed participant id and data of a request (for the oracle).
func vfPid(args []interface{}) (pid int, has bool) {
	if len(args) != 1 {
		return 0, false
	}
	switch r := args[0].(type) {
	case requests.SignatureProposalParticipantRequest:
		return r.ParticipantId, true
	case requests.DKGProposalCommitConfirmationRequest:
		return r.ParticipantId, true
	case requests.DKGProposalDealConfirmationRequest:
		return r.ParticipantId, true
	case requests.DKGProposalResponseConfirmationRequest:
		return r.ParticipantId, true
	case requests.DKGProposalMasterKeyConfirmationRequest:
		return r.ParticipantId, true
	case requests.DKGProposalConfirmationErrorRequest:
		return r.ParticipantId, true
	case requests.SigningProposalBatchPartialSignRequests:
		return r.ParticipantId, true
	case requests.SignatureProposalConfirmationErrorRequest:
		return r.ParticipantId, true
	}
	return 0, false
}

// vfOnlyChanged: at most index p differs between xs and ys.
func vfOnlyChanged(xs, ys []int, p int) bool {
	if len(xs) != len(ys) {
		return false
	}
	for i := range xs {
		if i != p && xs[i] != ys[i] {
			return false
		}
	}
	return true
}

func vfAll(xs []int, v int) bool { return vfCount(xs, v) == len(xs) }

// VF_FSMStep: params abs (abstract pre-state), event, variant.
func VF_FSMStep() {
	a := vfParseAbs(vf.Param("abs"))
	ev := vf.Param("event")
	variant := vf.ParamInt("variant")
	n := a.N

	pre := vfConcretize(a)
	data, merr := json.Marshal(pre)
	if merr != nil {
		vf.Unreachable("harness-marshal")
		return
	}
	inst, err := FromDump(data)
	// C19(1): every reachable abstract state must be restorable
	vf.Assert("restore-succeeds:"+a.State, err == nil)
	if err != nil {
		vf.Record("edge", "unrestorable", "")
		return
	}
	// C19(2): the restored payload equals the dumped one field by field
	vf.Assert("payload-roundtrip:"+a.State, vf.Eq(inst.dump.Payload, pre.Payload))
	before := pre
	preState, _ := inst.State()
	vf.Assert("restored-machine-state:"+a.State, string(preState) == a.State)

	args := vfRequest(ev, variant)
	resp, _, derr := inst.Do(fsm.Event(ev), args...)
	machState, _ := inst.State()

	if derr != nil {
		// C05(1): a rejected event changes nothing
		// nil and empty containers are the same thing for this obligation (SigningQuorumGet allocates an empty map on read)
		vf.Assert("rejected-noop:payload", vf.EqLoose(inst.dump.Payload, before.Payload))
		vf.Assert("rejected-noop:machine-state", string(machState) == a.State)
		if inst.dump.State != fsm.State(a.State) {
			// in-memory dump.State after a callback-level rejection (see DESIGN C05, not observable through the node)
			vf.Record("observation", "dumpstate-after-reject", a.State, ev, string(inst.dump.State))
		}
		vf.Record("edge", "rejected", a.State)
		return
	}
	if resp == nil {
		vf.Unreachable("accepted-without-response")
		return
	}
	if a.State == vfIdle && inst.dump.Payload.SignatureProposalPayload != nil {
		n = len(inst.dump.Payload.SignatureProposalPayload.Quorum)
	}
	post := vfAbstract(inst.dump, n, a.PolyAgr)
	if post.State != vfMaster {
		post.PolyAgr = false // the ghost bit is only meaningful while keys are being announced
	}
	vf.Assert("response-state-is-dump-state", string(resp.State) == string(inst.dump.State))
	vf.Assert("machine-state-is-dump-state", string(machState) == string(inst.dump.State))

	pid, hasPid := vfPid(args)
	vfCheckSig(a, post, ev, pid, hasPid, inst, args)
	vfCheckDkg(a, post, ev, pid, hasPid, inst, before, args)
	vfCheckSigning(a, post, ev, pid, hasPid, inst, before, args, resp)
	vfCheckGlobal(a, post, ev)

	vfCheckInvariants(post, inst)
	vfCheckDeadline(a, post, inst)
	vf.Record("edge", "accepted", post.String())
}

// vfCheckDeadline: C05 "an expired deadline puts the round into a cancelled state": a step inside a collection phase
// that leaves the round alive (waiting, or advanced to the next phase / signing-ready) must not have an expired deadline.
func vfCheckDeadline(a, post *vfAbs, inst *FSMInstance) {
	p := inst.dump.Payload
	if a.State == vfSigAwait && (post.State == vfSigAwait || post.State == vfSigDone) {
		vf.Assert("expired-deadline-cancels", !p.SignatureProposalPayload.IsExpired())
	}
	for _, ph := range vfDkgPhases {
		if a.State == ph.await && (post.State == ph.await || post.State == ph.next) {
			vf.Assert("expired-deadline-cancels", !p.DKGProposalPayload.IsExpired())
		}
	}
	if a.State == vfSignAwait && (post.State == vfSignAwait || post.State == vfSignDone) {
		vf.Assert("expired-deadline-cancels", !p.SigningProposalPayload.IsExpired())
	}
}

// vfCheckInvariants: the invariants gamma assumes for pre-states are re-established by every accepted step.
func vfCheckInvariants(post *vfAbs, inst *FSMInstance) {
	p := inst.dump.Payload
	if post.State == vfSigAwait {
		vf.Assert("inv:await-not-expired", !p.SignatureProposalPayload.IsExpired())
	}
	for _, ph := range vfDkgPhases {
		if post.State == ph.await {
			vf.Assert("inv:await-not-expired", !p.DKGProposalPayload.IsExpired())
		}
	}
	if post.State == vfSignAwait {
		vf.Assert("inv:await-not-expired", !p.SigningProposalPayload.IsExpired())
	}
	if post.State == vfMaster || post.State == vfMasterDone {
		var first []byte
		for i := 0; i < post.N; i++ {
			if post.Dkg[i] == 10 {
				k := p.DKGProposalPayload.Quorum[i].DkgMasterKey
				if first == nil {
					first = k
				} else {
					vf.Assert("inv:confirmed-masterkeys-equal", vf.BytesEq(first, k))
				}
			}
		}
	}
}

var vfOrder = []string{vfIdle, vfSigAwait, vfSigDone, vfCommits, vfDeals, vfResponses, vfMaster, vfMasterDone, vfSignIdle}

func vfRank(s string) int {
	for i, x := range vfOrder {
		if x == s {
			return i
		}
	}
	return -1
}

// vfCheckGlobal: C05(3) no skip / no repeat, C05(4) cancelled is absorbing.
func vfCheckGlobal(a, post *vfAbs, ev string) {
	if vfCancelled[a.State] {
		vf.Assert("cancel-absorbing", post.State == a.State)
	}
	ra, rp := vfRank(a.State), vfRank(post.State)
	if ra >= 0 && ra < vfRank(vfSignIdle) {
		ok := post.State == a.State || rp == ra+1 || vfCancelled[post.State]
		vf.Assert("no-skip", ok)
	}
	if vfCancelled[post.State] && !vfCancelled[a.State] {
		// a cancelled state is entered only from the await state of its own phase
		from := ""
		switch post.State {
		case vfSigCancelP, vfSigCancelT:
			from = vfSigAwait
		case vfCommitsErr, vfCommitsTO:
			from = vfCommits
		case vfDealsErr, vfDealsTO:
			from = vfDeals
		case vfResponsesEr, vfResponsesTO:
			from = vfResponses
		case vfMasterErr, vfMasterTO:
			from = vfMaster
		}
		vf.Assert("cancel-from-own-phase", a.State == from)
	}
}

// vfCheckSig: invitation phase.
func vfCheckSig(a, post *vfAbs, ev string, pid int, hasPid bool, inst *FSMInstance, args []interface{}) {
	switch a.State {
	case vfIdle:
		vf.Assert("idle-accepts-only-init", ev == "event_sig_proposal_init")
		if ev == "event_sig_proposal_init" && len(args) == 1 {
			if r, ok := args[0].(requests.SignatureProposalParticipantsListRequest); ok {
				np := len(r.Participants)
				vf.Assert("init-validation:n>=2", np >= 2)
				vf.Assert("init-validation:2<=t<=n", vf.And(r.SigningThreshold >= 2, r.SigningThreshold <= np))
				vf.Assert("init-validation:created-set", !r.CreatedAt.IsZero())
				q := inst.dump.Payload.SignatureProposalPayload.Quorum
				ok := len(q) == np
				for i := 0; i < np; i++ {
					p, ex := q[i]
					if !ex || p.Status != internal.SigConfirmationAwaitConfirmation || p.Username != vfUser(i) {
						ok = false
					}
				}
				vf.Assert("init-quorum-is-0..n-1-await", ok)
				vf.Assert("init-threshold-stored", inst.dump.Payload.Threshold == r.SigningThreshold)
				vf.Assert("init-state", post.State == vfSigAwait)
			}
		}
	case vfSigAwait:
		isAns := ev == "event_sig_proposal_confirm_by_participant" || ev == "event_sig_proposal_decline_by_participant"
		vf.Assert("sig-await-accepts-only-answers", isAns)
		if !isAns || !hasPid {
			return
		}
		vf.Assert("accept-needs-member", vf.And(pid >= 0, pid < a.N))
		p := vf.Concrete(pid)
		if p < 0 || p >= a.N {
			return
		}
		if post.State == vfSigCancelT {
			// timeout path: at most p's own (late) answer is recorded in the cancelled round
			vf.Assert("timeout-changes-at-most-p", vfOnlyChanged(a.Sig, post.Sig, p))
			return
		}
		vf.Assert("accept-needs-await", a.Sig[p] == 0)
		vf.Assert("accept-changes-only-p", vfOnlyChanged(a.Sig, post.Sig, p))
		want := 1
		if ev == "event_sig_proposal_decline_by_participant" {
			want = 2
		}
		vf.Assert("accept-records-answer", post.Sig[p] == want)
		if post.State == vfSigDone {
			vf.Assert("advance-needs-unanimity", vfAll(post.Sig, 1) && a.Sig[p] == 0 && vfCount(a.Sig, 1) == a.N-1)
		}
		if want == 2 {
			vf.Assert("decline-cancels", post.State == vfSigCancelP)
		}
		if vfAll(post.Sig, 1) {
			vf.Assert("unanimity-advances", post.State == vfSigDone)
		}
	case vfSigDone:
		vf.Assert("handover-only-dkg-init", ev == "event_dkg_init_process")
		if ev == "event_dkg_init_process" {
			vf.Assert("dkg-init-state", post.State == vfCommits)
			vf.Assert("dkg-init-all-await", post.HasDkg && vfAll(post.Dkg, 0) && len(post.Dkg) == a.N)
		}
	}
}

// vfCheckDkg: the four collection phases.
func vfCheckDkg(a, post *vfAbs, ev string, pid int, hasPid bool, inst *FSMInstance, before *FSMDump, args []interface{}) {
	for k, ph := range vfDkgPhases {
		if a.State == ph.cancelErr {
			// the error event is re-acceptable in its own cancelled state (table), but must not un-cancel
			vf.Assert("cancelled-stays", post.State == a.State)
		}
		if a.State != ph.await {
			continue
		}
		vf.Assert("phase-accepts-only-its-events:"+ph.await, ev == ph.evOK || ev == ph.evErr)
		if !(ev == ph.evOK || ev == ph.evErr) || !hasPid {
			return
		}
		vf.Assert("accept-needs-member", vf.And(pid >= 0, pid < a.N))
		p := vf.Concrete(pid)
		if p < 0 || p >= a.N {
			return
		}
		vf.Assert("accept-needs-await", a.Dkg[p] == ph.stAwait)
		if post.State == ph.cancelTO {
			return
		}
		if ev == ph.evErr {
			vf.Assert("error-cancels", post.State == ph.cancelErr)
			vf.Assert("error-recorded", post.Dkg[p] == ph.stErr && post.DkgErr[p])
			vf.Assert("accept-changes-only-p", vfOnlyChanged(a.Dkg, post.Dkg, p))
			return
		}
		// contribution
		if post.State == ph.await {
			vf.Assert("accept-changes-only-p", vfOnlyChanged(a.Dkg, post.Dkg, p))
			vf.Assert("accept-records-contribution", post.Dkg[p] == ph.stOK && post.DkgData[p]&(1<<uint(k)) != 0)
			vf.Assert("waits-while-incomplete", vfCount(post.Dkg, ph.stOK) < a.N)
		} else if post.State == ph.next {
			vf.Assert("advance-needs-unanimity", vfCount(a.Dkg, ph.stOK) == a.N-1 && a.Dkg[p] == ph.stAwait)
			for i := 0; i < a.N; i++ {
				vf.Assert("advance-keeps-all-contributions", post.DkgData[i]&(1<<uint(k)) != 0)
			}
			if k < 3 {
				vf.Assert("advance-resets-statuses", vfAll(post.Dkg, vfDkgPhases[k+1].stAwait))
			}
		} else if k == 3 && post.State == ph.cancelErr {
			// differing announced group keys
			vf.Assert("mismatch-marks-all", vfAll(post.Dkg, ph.stErr))
		} else {
			vf.Unreachable("unexpected-successor:" + ph.await)
		}
		if k == 3 {
			vfCheckMasterKey(a, post, p, inst, before, args)
		}
	}
}

// vfCheckMasterKey: C02(1) one group key, one polynomial.
func vfCheckMasterKey(a, post *vfAbs, p int, inst *FSMInstance, before *FSMDump, args []interface{}) {
	r, ok := args[0].(requests.DKGProposalMasterKeyConfirmationRequest)
	if !ok {
		return
	}
	q := inst.dump.Payload.DKGProposalPayload
	// does the announced key equal the keys already confirmed?
	sameKey := true
	anyPrev := false
	for i := 0; i < a.N; i++ {
		if i != p && a.Dkg[i] == 10 {
			anyPrev = true
			if !vf.Decide(vf.BytesEq(before.Payload.DKGProposalPayload.Quorum[i].DkgMasterKey, r.MasterKey)) {
				sameKey = false
			}
		}
	}
	if !sameKey {
		vf.Assert("masterkeys-equal:mismatch-cancels", post.State == vfMasterErr)
	}
	if post.State == vfMasterDone {
		vf.Assert("masterkeys-equal", sameKey)
		for i := 0; i < a.N; i++ {
			vf.Assert("masterkeys-equal:stored", vf.BytesEq(q.Quorum[i].DkgMasterKey, r.MasterKey))
		}
	}
	// ghost: did every announcer so far announce the polynomial that is retained now?
	agreed := true
	if anyPrev {
		agreed = a.PolyAgr && vf.Decide(vf.BytesEq(before.Payload.DKGProposalPayload.PubPolyBz, r.PubPolyBz))
	}
	post.PolyAgr = agreed && post.State == vfMaster
	if post.State != vfMasterErr {
		vf.Assert("poly-retained-is-announced", vf.BytesEq(q.PubPolyBz, r.PubPolyBz))
	}
	if post.State == vfMasterDone {
		vf.Assert("poly-agreed", agreed)
	}
}

// vfCheckSigning: C06.
func vfCheckSigning(a, post *vfAbs, ev string, pid int, hasPid bool, inst *FSMInstance, before *FSMDump, args []interface{}, resp *fsm.Response) {
	switch a.State {
	case vfMasterDone:
		vf.Assert("handover-only-signing-init", ev == "event_signing_init")
		vf.Assert("signing-init-state", post.State == vfSignIdle)
	case vfSignIdle:
		vf.Assert("idle-accepts-only-start", ev == "event_signing_start")
		if ev == "event_signing_start" {
			vf.Assert("start-state", post.State == vfSignAwait)
			vf.Assert("restart-to-idle:new-quorum-all-await", len(post.Sgn) == a.N && vfAll(post.Sgn, 0))
			fresh := true
			for i := range post.SgnHas {
				if post.SgnHas[i] || post.SgnErr[i] {
					fresh = false
				}
			}
			vf.Assert("restart-to-idle:new-quorum-empty", fresh)
			if r, ok := args[0].(requests.SigningBatchProposalStartRequest); ok {
				vf.Assert("start-records-batch", inst.dump.Payload.SigningProposalPayload.BatchID == r.BatchID)
			}
		}
	case vfSignDone, vfSignErr, vfSignTO:
		vf.Assert("finished-accepts-only-restart", ev == "event_signing_restart")
		vf.Assert("restart-to-idle", post.State == vfSignIdle)
	case vfSignAwait:
		isPS := ev == "event_signing_partial_sign_received"
		isErr := ev == "event_signing_partial_sign_error_received"
		vf.Assert("await-accepts-only-contributions", isPS || isErr)
		if !(isPS || isErr) || !hasPid {
			return
		}
		vf.Assert("accept-needs-member", vf.And(pid >= 0, pid < a.N))
		p := vf.Concrete(pid)
		if p < 0 || p >= a.N {
			return
		}
		// C06(2) no double counting
		vf.Assert("no-double-count", a.Sgn[p] == 0)
		if post.State == vfSignTO {
			return
		}
		confirmedPre := vfCount(a.Sgn, 1)
		failedPre := vfCount(a.Sgn, 2)
		if isPS {
			r := args[0].(requests.SigningProposalBatchPartialSignRequests)
			// C06(3) batch binding
			vf.Assert("batch-binding", r.BatchID == before.Payload.SigningProposalPayload.BatchID)
			// C06(1) collect iff t
			if post.State == vfSignDone {
				vf.Assert("collect-iff-t:not-early", confirmedPre+1 == a.T)
			} else {
				vf.Assert("collect-iff-t:not-late", confirmedPre+1 < a.T)
				vf.Assert("collect-iff-t:waits", post.State == vfSignAwait)
				vf.Assert("accept-changes-only-p", vfOnlyChanged(a.Sgn, post.Sgn, p))
				vf.Assert("accept-records-contribution", post.Sgn[p] == 1 && post.SgnHas[p])
			}
			if post.State == vfSignDone {
				vfCheckCollected(a, p, inst, before, r, resp)
			}
		} else {
			// C06(4) cancel iff failed > n-t
			if post.State == vfSignErr {
				vf.Assert("cancel-iff-failed>n-t:not-early", failedPre+1 > a.N-a.T)
			} else {
				vf.Assert("cancel-iff-failed>n-t:not-late", failedPre+1 <= a.N-a.T)
				vf.Assert("error-waits", post.State == vfSignAwait)
				vf.Assert("accept-changes-only-p", vfOnlyChanged(a.Sgn, post.Sgn, p))
				vf.Assert("error-recorded", post.Sgn[p] == 2 && post.SgnErr[p])
			}
		}
	}
}

// vfCheckCollected: C06(5) the response lists exactly the contributors with exactly what they sent.
func vfCheckCollected(a *vfAbs, p int, inst *FSMInstance, before *FSMDump, r requests.SigningProposalBatchPartialSignRequests, resp *fsm.Response) {
	out, ok := resp.Data.(responses.SigningProcessParticipantResponse)
	vf.Assert("response-lists-contributors:type", ok)
	if !ok {
		return
	}
	want := 0
	for i := 0; i < a.N; i++ {
		if a.SgnHas[i] || i == p {
			want++
		}
	}
	vf.Assert("response-lists-contributors:count", len(out.Participants) == want)
	for _, e := range out.Participants {
		i := e.ParticipantId
		if i < 0 || i >= a.N {
			vf.Unreachable("response-lists-contributors:id")
			continue
		}
		vf.Assert("response-lists-contributors:member", a.SgnHas[i] || i == p)
		if i != p {
			vf.Assert("response-lists-contributors:stored-signs", vf.Eq(e.PartialSigns, before.Payload.SigningProposalPayload.Quorum[i].PartialSigns))
		} else {
			for k, ps := range r.PartialSigns {
				got, has := e.PartialSigns[ps.MessageID]
				// with a repeated message id inside one request the last entry wins; compare the last one only
				last := true
				for k2 := k + 1; k2 < len(r.PartialSigns); k2++ {
					if vf.Decide(r.PartialSigns[k2].MessageID == ps.MessageID) {
						last = false
					}
				}
				if last {
					vf.Assert("response-lists-contributors:own-signs", vf.And(has, vf.BytesEq(got, ps.Sign)))
				} else {
					vf.Assert("response-lists-contributors:own-signs", has)
				}
			}
		}
	}
	vf.Assert("response-batch", out.BatchID == before.Payload.SigningProposalPayload.BatchID)
	vf.Assert("response-payload", vf.BytesEq(out.SrcPayload, before.Payload.SigningProposalPayload.SrcPayload))
}

var _ = time.Second

// VF_FSMStep2: C19(3) — after an accepted event e1, any event e2 behaves the same on the in-memory instance
// and on the instance restored from the dump returned by e1.
func VF_FSMStep2() {
	a := vfParseAbs(vf.Param("abs"))
	e1 := vf.Param("event")
	pre := vfConcretize(a)
	data, _ := json.Marshal(pre)
	inst, err := FromDump(data)
	if err != nil {
		return // restore failure is reported by VF_FSMStep
	}
	resp1, dump1, derr := inst.Do(fsm.Event(e1), vfRequest(e1, 0)...)
	if derr != nil || resp1 == nil {
		return
	}
	mid := string(resp1.State)
	restored, rerr := FromDump(dump1)
	vf.Assert("restore-succeeds:"+mid, rerr == nil)
	if rerr != nil {
		return
	}
	if mid == vfSigDone || mid == vfMasterDone {
		// hand-over states: the in-memory instance is by construction the previous machine and the node always
		// reloads here (DESIGN C19, explicit exemption); only restorability is required.
		return
	}
	e2 := vfEvents[vf.Choose("e2", len(vfEvents))]
	args := vfRequest(e2, 0)
	ra, _, erra := inst.Do(fsm.Event(e2), args...)
	rb, _, errb := restored.Do(fsm.Event(e2), args...)
	lbl := "restored-behaves-equal:"
	vf.Assert(lbl+"accept", (erra == nil) == (errb == nil))
	if (erra == nil) != (errb == nil) {
		return
	}
	if (ra == nil) != (rb == nil) {
		vf.Unreachable(lbl + "response-presence")
		return
	}
	if ra != nil {
		vf.Assert(lbl+"state", ra.State == rb.State)
		if erra == nil {
			vf.Assert(lbl+"data", vf.Eq(ra.Data, rb.Data))
		}
	}
	vf.Assert(lbl+"payload", vf.Eq(inst.dump.Payload, restored.dump.Payload))
	vf.Assert(lbl+"dump-state", inst.dump.State == restored.dump.State)
}

// VFProjection: the public, time-free content of a round (what C08/C13 compare between runs).
type VFProjection struct {
	State      string
	Threshold  int
	Sig        []int
	Dkg        []int
	DkgErr     []bool
	Commits    [][]byte
	Deals      [][]byte
	Responses  [][]byte
	MasterKeys [][]byte
	PubPoly    []byte
	Sgn        []int
	SgnErr     []bool
	Partial    []map[string][]byte
	BatchID    string
	SrcPayload []byte
	PubKeys    map[string]ed25519.PublicKey
	IDs        map[string]int
}

func VFProject(dump []byte, n int) (VFProjection, bool) {
	d := &FSMDump{}
	if err := d.Unmarshal(dump); err != nil || d.Payload == nil {
		return VFProjection{}, false
	}
	p := d.Payload
	out := VFProjection{State: string(d.State), Threshold: p.Threshold, PubKeys: p.PubKeys, IDs: p.IDs}
	if p.SignatureProposalPayload != nil {
		for i := 0; i < n; i++ {
			if q, ok := p.SignatureProposalPayload.Quorum[i]; ok && q != nil {
				out.Sig = append(out.Sig, int(q.Status))
			}
		}
	}
	if p.DKGProposalPayload != nil {
		for i := 0; i < n; i++ {
			if q, ok := p.DKGProposalPayload.Quorum[i]; ok && q != nil {
				out.Dkg = append(out.Dkg, int(q.Status))
				out.DkgErr = append(out.DkgErr, q.Error != nil)
				out.Commits = append(out.Commits, q.DkgCommit)
				out.Deals = append(out.Deals, q.DkgDeal)
				out.Responses = append(out.Responses, q.DkgResponse)
				out.MasterKeys = append(out.MasterKeys, q.DkgMasterKey)
			}
		}
		out.PubPoly = p.DKGProposalPayload.PubPolyBz
	}
	if p.SigningProposalPayload != nil {
		out.BatchID = p.SigningProposalPayload.BatchID
		out.SrcPayload = p.SigningProposalPayload.SrcPayload
		for i := 0; i < n; i++ {
			if q, ok := p.SigningProposalPayload.Quorum[i]; ok && q != nil {
				out.Sgn = append(out.Sgn, int(q.Status))
				out.SgnErr = append(out.SgnErr, q.Error != nil)
				out.Partial = append(out.Partial, q.PartialSigns)
			}
		}
	}
	return out, true
}

// vfPolyCommit: the k-th commitment of the polynomial the round retains (symbolic point encoding)
func vfPolyCommit(k int) []byte { return vfPoint("poly.c"+strconv.Itoa(k), k+2) }

// vfPoint: the encoding of a curve point. Symbolic mode: two symbolic bytes that decode (the decoder's verdict is an
// uninterpreted predicate); native mode (replays): the encoding of i*G on the real curve.
func vfPoint(name string, i int) []byte {
	if vf.Symbolic() {
		b := vf.Bytes(name, 2)
		vf.Assume(vf.UFBool("kyber.pt.decodes", b))
		return b
	}
	suite := bls12381.NewBLS12381Suite(nil)
	bz, _ := suite.Point().Mul(suite.Scalar().SetInt64(int64(i)), nil).MarshalBinary()
	return bz
}

// vfPolyJSON: what dkg.BLSKeyring.PubPolyBytes produces for these commitments
func vfPolyJSON(commits ...[]byte) []byte {
	bz, _ := json.Marshal(struct {
		Commitments [][]byte `json:"commitments"`
		Share       []byte   `json:"share"`
	}{Commitments: commits})
	return bz
}
