package state_machines

import (
	"bytes"
	"encoding/json"
	"errors"
	"fmt"
	"os"
	"path/filepath"
	"sort"
	"strconv"
	"strings"
	"sync/atomic"
	"time"
	"unicode"

	"github.com/lidofinance/dc4bc/internal/vf"
)

type vfSmokeErr struct{ code int }

func (e *vfSmokeErr) Error() string { return "smoke " + strconv.Itoa(e.code) }

// VF_Smoke_Std: engine self-test: which library functions a harmless refactoring might start using are modelled. Param case.
func VF_Smoke_Std() {
	s := vf.Str("s")
	b := vf.Bytes("b", 3)
	x := vf.Int("x")
	switch vf.Param("case") {
	case "atomic":
		var c int32
		atomic.AddInt32(&c, 2)
		atomic.StoreInt32(&c, atomic.LoadInt32(&c)+1)
		var d int64
		atomic.AddInt64(&d, int64(x))
		vf.Assert("atomic", c == 3 && d == int64(x))
	case "bytes":
		vf.Assert("bytes", bytes.HasPrefix(append([]byte("ab"), b...), []byte("ab")) && bytes.Contains([]byte("hello"), []byte("ell")) &&
			len(bytes.TrimSpace([]byte(" a "))) == 1 && len(bytes.Join([][]byte{b, b}, []byte(","))) == 7 && bytes.Compare(b, b) == 0 && len(bytes.Repeat(b, 2)) == 6)
	case "strings":
		t := "pre" + s
		vf.Assert("strings", strings.HasPrefix(t, "pre") && strings.Contains(t, "re") && strings.EqualFold("Ab", "aB") &&
			strings.Repeat("ab", 2) == "abab" && strings.Replace("aXa", "X", "b", -1) == "aba" && len(strings.Fields(" a b ")) == 2 &&
			strings.ToUpper("ab") == "AB" && strings.TrimSpace(" a ") == "a" && strings.Index("abc", "c") == 2 && strings.TrimPrefix(t, "pre") == s &&
			strings.Join([]string{"a", s}, "-") == "a-"+s && strings.Count("aaa", "a") == 3 && strings.LastIndex("aba", "a") == 2 && strings.Title("ab") == "Ab")
	case "strconv":
		n, err := strconv.Atoi("42")
		q := strconv.Quote("a")
		bb, _ := strconv.ParseBool("true")
		vf.Assert("strconv", n == 42 && err == nil && q == "\"a\"" && bb && strconv.FormatInt(255, 16) == "ff" && strconv.Itoa(x) == strconv.FormatInt(int64(x), 10))
	case "errors":
		base := &vfSmokeErr{code: 7}
		w := fmt.Errorf("wrapped: %w", base)
		var target *vfSmokeErr
		vf.Assert("errors", errors.Is(w, base) && errors.As(w, &target) && target.code == 7 && errors.Unwrap(w) == error(base) && w.Error() == "wrapped: smoke 7")
	case "time":
		t0 := vf.Time("t0")
		t1 := t0.Add(3 * time.Second)
		vf.Assert("time", t1.After(t0) && t1.Sub(t0) == 3*time.Second && !t0.IsZero() && t0.Before(t1) && t1.Equal(t0.Add(3000*time.Millisecond)) && t0.UTC().Equal(t0) && t1.Unix()-t0.Unix() <= 3 && time.Duration(2)*time.Second == 2*time.Second)
	case "time2":
		t0 := vf.Time("t0")
		d := time.Since(t0)
		_ = d
		dl := time.Until(t0)
		_ = dl
		vf.Assert("time2", t0.Truncate(time.Second).Before(t0.Add(time.Second)) && t0.Round(0).Equal(t0))
	case "sort":
		xs := []int{3, 1, 2}
		sort.Ints(xs)
		ss := []string{"b", "a"}
		sort.Strings(ss)
		vf.Assert("sort", xs[0] == 1 && ss[0] == "a" && sort.SearchInts(xs, 2) == 1 && sort.IsSorted(sort.IntSlice(xs)))
	case "fmt":
		vf.Assert("fmt", fmt.Sprint("a", 1) == "a1" && fmt.Sprintf("%03d|%x|%q|%v|%t", 7, 255, "s", []int{1}, true) == "007|ff|\"s\"|[1]|true" && fmt.Sprintln("a") == "a\n")
		fmt.Fprintf(os.Stderr, "x %d\n", 1)
		fmt.Println("y")
	case "os":
		_ = os.Getenv("HOME")
		vf.Assert("os", filepath.Join("a", "b") == "a/b" && filepath.Base("/x/y.txt") == "y.txt" && filepath.Ext("y.txt") == ".txt" && filepath.Dir("/x/y") == "/x")
	case "unicode":
		vf.Assert("unicode", unicode.IsUpper('A') && unicode.IsDigit('1') && !unicode.IsSpace('a') && unicode.ToLower('A') == 'a')
	case "json":
		type T struct {
			A int             `json:"a"`
			B []byte          `json:"b,omitempty"`
			R json.RawMessage `json:"r"`
		}
		v := T{A: x, R: json.RawMessage(`{"k":1}`)}
		bz, err := json.Marshal(v)
		var w T
		err2 := json.Unmarshal(bz, &w)
		ind, err3 := json.MarshalIndent(map[string]int{"a": 1}, "", " ")
		vf.Assert("json", err == nil && err2 == nil && err3 == nil && w.A == x && len(ind) > 0 && json.Valid([]byte(`{"a":1}`)))
	case "json2":
		var buf bytes.Buffer
		err := json.NewEncoder(&buf).Encode(map[string]int{"a": x})
		var m map[string]int
		err2 := json.NewDecoder(&buf).Decode(&m)
		vf.Assert("json2", err == nil && err2 == nil && m["a"] == x)
	case "copy":
		dst := make([]byte, 2)
		n := copy(dst, b)
		m := map[string]int{"a": 1}
		delete(m, "a")
		min := x
		if min > 3 {
			min = 3
		}
		vf.Assert("copy", n == 2 && dst[0] == b[0] && len(m) == 0 && cap(dst) >= 2 && min <= 3)
	}
	vf.Assert("witness", false)
}
