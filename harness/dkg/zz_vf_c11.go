package dkg

// C11: a dealer whose private deal contradicts its public commitments is caught.
// dc4bc's part: ProcessDeals / processDealCommits turn every deviation into an error (=> the error result the airgapped
// machine publishes => every FSM cancels, see C05) and accept only when every deal is consistent.
// Kyber's verdicts are inputs: symbolic mode describes them in the plaintext descriptor the stubs read; native mode
// (replay) builds a real ceremony with a really deviating dealer.

import (
	"crypto/sha256"
	"encoding/json"
	"strconv"

	"github.com/corestario/kyber"
	"github.com/corestario/kyber/pairing/bls12381"
	dkgp "github.com/corestario/kyber/share/dkg/pedersen"
	vssp "github.com/corestario/kyber/share/vss/pedersen"

	"github.com/lidofinance/dc4bc/internal/vf"
)

const (
	vfHonest = iota
	vfStatusFalse   // share does not lie on the polynomial the deal itself commits to (kyber: Status=false)
	vfDecryptFail   // encrypted to the wrong key / garbled ciphertext
	vfCommitDiffers // deal carries commitments different from the broadcast ones (deal from another polynomial)
	vfCommitShorter // broadcast commitments of the wrong length
	vfBadSignature  // dealer signature over the deal invalid
	vfIndexOutside  // dealer index outside the participant list
	vfCommitMissing // the dealer never broadcast commitments (nothing stored for it)
	vfCommitEmpty   // the dealer broadcast an empty commitment list
	vfCommitLonger  // broadcast commitments with one entry too many
	vfKinds
)

var vfKindName = []string{"honest", "status-false", "decrypt-fail", "commit-differs", "commit-shorter", "bad-signature", "index-outside", "commit-missing", "commit-empty", "commit-longer"}

type vfDescriptor struct {
	Commits   [][]byte `json:"commits"`
	Status    bool     `json:"status"`
	DecryptOK bool     `json:"decrypt_ok"`
	SigOK     bool     `json:"sig_ok"`
}

// vfSeed: a 32-byte seed (frand requires exactly 32 bytes)
func vfSeed(tag string) []byte {
	h := sha256.Sum256([]byte(tag))
	return h[:]
}

func vfName(i int) string { return "participant" + strconv.Itoa(i) }

// VF_C11_Deals: params n, t. The victim is participant 0; every other participant is a dealer of some kind.
func VF_C11_Deals() {
	n, t := vf.ParamInt("n"), vf.ParamInt("t")
	kinds := make([]int, n)
	allHonest := true
	swap := vf.Param("swap") != "" && n >= 3
	for j := 1; j < n; j++ {
		if swap {
			continue // every dealer is honest by itself; two of them swap their data on both channels (below)
		}
		kinds[j] = vf.Choose("dealer"+strconv.Itoa(j)+".kind", vfKinds)
		if kinds[j] != vfHonest {
			allHonest = false
		}
	}
	var victim *DKG
	if vf.Symbolic() {
		victim = vfSymbolicScenario(n, t, kinds)
	} else {
		victim = vfRealScenario(n, t, kinds)
	}
	if victim == nil {
		vf.Unreachable("scenario")
		return
	}
	if swap {
		// two cooperating dealers: 1 publishes 2's commitments and carries 2's signed deal, and vice versa. Each deal is
		// consistent with the commitments published under the OTHER name, and with neither dealer's own broadcast.
		a, b := vfName(1), vfName(2)
		if vf.Symbolic() {
			vf.Assume(!vf.BytesEq(vfCommitBytes(victim, a, 0), vfCommitBytes(victim, b, 0)))
		}
		victim.commits[a], victim.commits[b] = victim.commits[b], victim.commits[a]
		victim.deals[a], victim.deals[b] = victim.deals[b], victim.deals[a]
		allHonest = false
	}
	panicked := false
	var resps []*dkgp.Response
	var err error
	func() {
		defer func() {
			if r := recover(); r != nil {
				panicked = true
			}
		}()
		resps, err = victim.ProcessDeals()
	}()
	vf.Assert("nopanic:ProcessDeals", !panicked)
	if panicked {
		return
	}
	if !allHonest {
		// any deviation => the handler fails => the machine publishes the *_canceled_by_error event
		vf.Assert("deviation-yields-error", err != nil)
		if err != nil {
			// the operator feeds the same operation again (re-scanned QR code, replayed log): still refused
			var resps2 []*dkgp.Response
			var err2 error
			func() {
				defer func() {
					if r := recover(); r != nil {
						panicked = true
					}
				}()
				resps2, err2 = victim.ProcessDeals()
			}()
			vf.Assert("nopanic:ProcessDeals", !panicked)
			vf.Assert("deviation-yields-error:on-retry", err2 != nil && len(resps2) == 0)
		}
	}
	if err == nil {
		vf.Assert("ready-implies-all-deals-ok", allHonest)
		vf.Assert("ready-implies-all-deals-ok:responses", len(resps) == n-1)
		for _, r := range resps {
			vf.Assert("ready-implies-all-deals-ok:status", r.Response.Status)
		}
	}
	if allHonest {
		vf.Assert("honest-deals-accepted", err == nil)
	}
	vf.Assert("witness", false)
}

func vfSymbolicScenario(n, t int, kinds []int) *DKG {
	suite := bls12381.NewBLS12381Suite(vfSeed("suite"))
	var secs []kyber.Scalar
	var pubs []kyber.Point
	for i := 0; i < n; i++ {
		s := suite.Scalar().Pick(suite.RandomStream())
		secs = append(secs, s)
		pubs = append(pubs, suite.Point().Mul(s, nil))
	}
	d := Init(suite, pubs[0], secs[0])
	d.Threshold, d.N = t, n
	for i := 0; i < n; i++ {
		d.StorePubKey(vfName(i), i, pubs[i])
	}
	if err := d.InitDKGInstance(vfSeed("base")); err != nil {
		return nil
	}
	for j := 1; j < n; j++ {
		js := strconv.Itoa(j)
		// broadcast commitments of dealer j
		var bc [][]byte
		var pts []kyber.Point
		for k := 0; k < t; k++ {
			b := vf.Bytes("d"+js+".commit"+strconv.Itoa(k), 2)
			bc = append(bc, b)
			p := suite.Point()
			vf.Assume(vf.UFBool("kyber.pt.decodes", b))
			_ = p.UnmarshalBinary(b)
			pts = append(pts, p)
		}
		desc := vfDescriptor{Commits: bc, Status: true, DecryptOK: true, SigOK: true}
		idx := uint32(j)
		switch kinds[j] {
		case vfStatusFalse:
			desc.Status = false
		case vfDecryptFail:
			desc.DecryptOK = false
		case vfCommitDiffers:
			other := vf.Bytes("d"+js+".othercommit", 2)
			k := vf.Choose("d"+js+".which", t)
			vf.Assume(!vf.BytesEq(other, bc[k]))
			cp := append([][]byte{}, bc...)
			cp[k] = other
			desc.Commits = cp
		case vfCommitShorter:
			pts = pts[:t-1]
		case vfBadSignature:
			desc.SigOK = false
		case vfIndexOutside:
			idx = uint32(n + vf.Choose("d"+js+".outside", 3))
		case vfCommitEmpty:
			pts = []kyber.Point{}
		case vfCommitLonger:
			extra := vf.Bytes("d"+js+".extracommit", 2)
			vf.Assume(vf.UFBool("kyber.pt.decodes", extra))
			p := suite.Point()
			_ = p.UnmarshalBinary(extra)
			pts = append(pts, p)
		}
		if kinds[j] != vfCommitMissing {
			d.StoreCommits(vfName(j), pts)
		}
		cipher, _ := json.Marshal(desc)
		d.StoreDeal(vfName(j), &dkgp.Deal{Index: idx, Deal: &vssp.EncryptedDeal{DHKey: []byte("dh"), Signature: []byte("s"), Nonce: []byte("n"), Cipher: cipher}, Signature: []byte("sig")})
	}
	return d
}

// vfRealScenario: n real DKG instances; dealer j deviates as kinds[j] says.
func vfRealScenario(n, t int, kinds []int) *DKG {
	mk := func(seedTag string) []*DKG {
		suite := bls12381.NewBLS12381Suite(vfSeed("suite-" + seedTag))
		var secs []kyber.Scalar
		var pubs []kyber.Point
		for i := 0; i < n; i++ {
			s := suite.Scalar().Pick(suite.RandomStream())
			secs = append(secs, s)
			pubs = append(pubs, suite.Point().Mul(s, nil))
		}
		var ds []*DKG
		for i := 0; i < n; i++ {
			d := Init(suite, pubs[i], secs[i])
			d.Threshold, d.N = t, n
			for k := 0; k < n; k++ {
				d.StorePubKey(vfName(k), k, pubs[k])
			}
			if err := d.InitDKGInstance(vfSeed("base-" + seedTag + strconv.Itoa(i))); err != nil {
				return nil
			}
			ds = append(ds, d)
		}
		return ds
	}
	ds := mk("a")
	if ds == nil {
		return nil
	}
	victim := ds[0]
	for j := 1; j < n; j++ {
		commits := ds[j].GetCommits()
		deals, err := ds[j].GetDeals()
		if err != nil {
			return nil
		}
		deal := deals[0]
		switch kinds[j] {
		case vfCommitDiffers:
			// exactly one broadcast commitment differs from the ones the private deal carries
			k := vf.Choose("d"+strconv.Itoa(j)+".which", t)
			cp := append([]kyber.Point{}, commits...)
			cp[k] = ds[j].suite.Point().Mul(ds[j].suite.Scalar().Pick(ds[j].suite.RandomStream()), nil)
			commits = cp
		case vfStatusFalse:
			// the private deal comes from a different polynomial than the broadcast commitments: same keys, other dealer secret
			alt := Init(ds[j].suite, ds[j].pubKey, ds[j].secKey)
			alt.Threshold, alt.N = t, n
			for k := 0; k < n; k++ {
				alt.StorePubKey(vfName(k), k, ds[k].pubKey)
			}
			if err := alt.InitDKGInstance(vfSeed("another-polynomial" + strconv.Itoa(j))); err != nil {
				return nil
			}
			ad, err := alt.GetDeals()
			if err != nil {
				return nil
			}
			deal = ad[0]
		case vfDecryptFail:
			c := append([]byte{}, deal.Deal.Cipher...)
			for i := range c {
				c[i] ^= 0x5a
			}
			deal.Deal.Cipher = c
		case vfCommitShorter:
			commits = commits[:len(commits)-1]
		case vfBadSignature:
			s := append([]byte{}, deal.Signature...)
			s[0] ^= 1
			deal.Signature = s
		case vfIndexOutside:
			deal.Index = uint32(n + vf.Choose("d"+strconv.Itoa(j)+".outside", 3))
		case vfCommitEmpty:
			commits = []kyber.Point{}
		case vfCommitLonger:
			commits = append(append([]kyber.Point{}, commits...), ds[j].suite.Point().Mul(ds[j].suite.Scalar().Pick(ds[j].suite.RandomStream()), nil))
		}
		if kinds[j] != vfCommitMissing {
			victim.StoreCommits(vfName(j), commits)
		}
		victim.StoreDeal(vfName(j), deal)
	}
	return victim
}

func vfCommitBytes(d *DKG, name string, k int) []byte {
	cs := d.commits[name]
	if k >= len(cs) {
		return nil
	}
	b, _ := cs[k].MarshalBinary()
	return b
}
