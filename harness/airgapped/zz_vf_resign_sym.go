package airgapped

// vfResign: the accuser signs its (edited) response. The symbolic stubs do not look at response signatures (a response is
// taken as validly signed by its alleged author), the native variant in the replay really signs with the author's key.

import (
	"github.com/corestario/kyber/sign/schnorr"
	vssPedersen "github.com/corestario/kyber/share/vss/pedersen"

	"github.com/lidofinance/dc4bc/internal/vf"
)

func vfResign(am *Machine, r *vssPedersen.Response) {
	if vf.Symbolic() {
		return
	}
	sig, err := schnorr.Sign(am.baseSuite, am.secKey, r.Hash(am.baseSuite))
	if err != nil {
		panic(err)
	}
	r.Signature = sig
}
