package airgapped

// The whole airgapped ceremony (commitments, deals, responses, master key, signing, reinitialisation) at contract level,
// n machines executed from their real code, messages routed the way the hot nodes route them.
//  C02 (airgapped half): every machine announces the same group key and the same polynomial, the announced key is the
//       constant term of the announced polynomial, the stored keyring holds that polynomial and the share of that DKG result.
//  C04 (1) no result operation depends on a secret except through ciphertexts / public points / signatures (vf.NoLeak),
//      (2) a deal opens with its addressee's key only, (3) the stored key and keyrings are sealed under the password and
//      do not load with another password.
//  C12: a twin of machine 0 (same mnemonic) is stopped at a chosen step (before logging or after), reopened from its
//       database, rebuilt by replaying its operation log and carries on: same commitments, same master key, same share.
//  C01/C03 (signer): every message of the batch is signed once, with the share of that round, under its own id.

import (
	"encoding/json"
	"os"
	"strconv"

	"github.com/corestario/kyber/pairing"
	"github.com/corestario/kyber/pairing/bls12381"
	dkgPedersen "github.com/corestario/kyber/share/dkg/pedersen"
	"github.com/corestario/kyber/sign/tbls"

	client "github.com/lidofinance/dc4bc/client/types"
	"github.com/lidofinance/dc4bc/dkg"
	"github.com/lidofinance/dc4bc/fsm/state_machines/dkg_proposal_fsm"
	"github.com/lidofinance/dc4bc/fsm/state_machines/signing_proposal_fsm"
	"github.com/lidofinance/dc4bc/fsm/types/requests"
	"github.com/lidofinance/dc4bc/fsm/types/responses"
	"github.com/lidofinance/dc4bc/internal/vf"
	"github.com/lidofinance/dc4bc/storage"
)

// vfBeforeStep: a hook run before every step (the adversary edits what the hot nodes hand to the machines)
var vfBeforeStep func(step int, nodes []*vfCNode)

// vfExpectError[id]: machine id is expected to refuse the step from which the hook deviates
var vfExpectError map[int]int

// vfStop2Step/vfStop2Phase: an optional second stop of the twin (several restarts in one ceremony)
var vfStop2Step, vfStop2Phase = -1, 0

// vfPrefixOnly: the round is only the genuine prefix of another scenario (its own obligations are checked elsewhere)
var vfPrefixOnly bool

const (
	vfStepCommits = iota
	vfStepDeals
	vfStepResponses
	vfStepMasterKey
	vfSteps
)

var vfStepType = []string{
	string(dkg_proposal_fsm.StateDkgCommitsAwaitConfirmations),
	string(dkg_proposal_fsm.StateDkgDealsAwaitConfirmations),
	string(dkg_proposal_fsm.StateDkgResponsesAwaitConfirmations),
	string(dkg_proposal_fsm.StateDkgMasterKeyAwaitConfirmations),
}
var vfStepName = []string{"commits", "deals", "responses", "masterkey"}

type vfCNode struct {
	id   int
	name string
	dir  string
	pw   []byte
	seed []byte // symbolic mode: the machine's base seed
	am   *Machine

	commits    []requests.DKGProposalCommitConfirmationRequest
	deals      []requests.DKGProposalDealConfirmationRequest
	responses  []requests.DKGProposalResponseConfirmationRequest
	masterKeys []requests.DKGProposalMasterKeyConfirmationRequest
	results    []client.Operation
}

func vfPName(i int) string { return "participant" + strconv.Itoa(i) }

// vfNewNode: a machine on a fresh directory. Symbolic mode: the base seed is 32 symbolic bytes (given, so that a twin can
// share them); native mode: machine 0 and its twin use the fixed mnemonic, the others their own random seed.
func vfNewNode(id int, tag string, seed []byte, mnemonic bool) *vfCNode {
	n := &vfCNode{id: id, name: vfPName(id), seed: seed, pw: []byte("password-" + tag)}
	n.dir = os.TempDir() + "/vf_cer_" + vf.Param("tag") + "_" + tag
	os.RemoveAll(n.dir)
	am, err := NewMachine(n.dir)
	if err != nil {
		panic(err)
	}
	am.SetResultFolder(n.dir)
	am.SetEncryptionKey(n.pw)
	if vf.Symbolic() {
		// what SetBaseSeed does after deriving the seed from the mnemonic
		if err := am.storeBaseSeed(seed); err != nil {
			panic(err)
		}
		am.baseSeed = append([]byte{}, seed...)
		am.baseSuite = bls12381.NewBLS12381Suite(am.baseSeed)
	} else if mnemonic {
		if err := am.SetBaseSeed(vfMnemonic); err != nil {
			panic(err)
		}
	}
	if err := am.GenerateKeys(); err != nil {
		panic(err)
	}
	n.am = am
	return n
}

// vfReopen: the process died; a new one is started on the same database the way cmd/airgapped does it.
func (n *vfCNode) vfReopen() {
	_ = n.am.db.Close()
	am, err := NewMachine(n.dir)
	if err != nil {
		panic(err)
	}
	am.SetResultFolder(n.dir)
	am.SetEncryptionKey(n.pw)
	if err := am.InitKeys(); err != nil {
		panic(err)
	}
	n.am = am
}

func (n *vfCNode) store(msg storage.Message) {
	switch msg.Event {
	case string(dkg_proposal_fsm.EventDKGCommitConfirmationReceived):
		var req requests.DKGProposalCommitConfirmationRequest
		if json.Unmarshal(msg.Data, &req) == nil {
			n.commits = append(n.commits, req)
		}
	case string(dkg_proposal_fsm.EventDKGDealConfirmationReceived):
		var req requests.DKGProposalDealConfirmationRequest
		if json.Unmarshal(msg.Data, &req) == nil {
			n.deals = append(n.deals, req)
		}
	case string(dkg_proposal_fsm.EventDKGResponseConfirmationReceived):
		var req requests.DKGProposalResponseConfirmationRequest
		if json.Unmarshal(msg.Data, &req) == nil {
			n.responses = append(n.responses, req)
		}
	case string(dkg_proposal_fsm.EventDKGMasterKeyConfirmationReceived):
		var req requests.DKGProposalMasterKeyConfirmationRequest
		if json.Unmarshal(msg.Data, &req) == nil {
			n.masterKeys = append(n.masterKeys, req)
		}
	}
}

// the operation the hot node of participant n builds for a step from what it has seen on the board
func (n *vfCNode) stepOp(step int, round string, nodes []*vfCNode, t int) client.Operation {
	var payload []byte
	switch step {
	case vfStepCommits:
		var p responses.DKGProposalPubKeysParticipantResponse
		order := append([]*vfCNode{}, nodes...)
		if vf.Param("listing") == "rev" {
			// the participants listed in descending id order (the machine sorts them itself)
			for i, j := 0, len(order)-1; i < j; i, j = i+1, j-1 {
				order[i], order[j] = order[j], order[i]
			}
		}
		for _, o := range order {
			pk, _ := o.am.pubKey.MarshalBinary()
			p = append(p, &responses.DKGProposalPubKeysParticipantEntry{ParticipantId: o.id, Username: o.name, DkgPubKey: pk, Threshold: t})
		}
		payload, _ = json.Marshal(p)
	case vfStepDeals:
		var p responses.DKGProposalCommitParticipantResponse
		for _, r := range n.commits {
			p = append(p, &responses.DKGProposalCommitParticipantEntry{ParticipantId: r.ParticipantId, Username: vfPName(r.ParticipantId), DkgCommit: r.Commit})
		}
		payload, _ = json.Marshal(p)
	case vfStepResponses:
		var p responses.DKGProposalDealParticipantResponse
		for _, r := range n.deals {
			p = append(p, &responses.DKGProposalDealParticipantEntry{ParticipantId: r.ParticipantId, Username: vfPName(r.ParticipantId), DkgDeal: r.Deal})
		}
		payload, _ = json.Marshal(p)
	case vfStepMasterKey:
		var p responses.DKGProposalResponseParticipantResponse
		for _, r := range n.responses {
			p = append(p, &responses.DKGProposalResponseParticipantEntry{ParticipantId: r.ParticipantId, Username: vfPName(r.ParticipantId), DkgResponse: r.Response})
		}
		payload, _ = json.Marshal(p)
	}
	return client.Operation{ID: "operation-" + vfStepName[step] + "-" + round, Type: client.OperationType(vfStepType[step]),
		Payload: payload, DKGIdentifier: round, CreatedAt: vf.Time("created." + vfStepName[step] + "." + round)}
}

// deliver: what the board does with the messages of a result operation (twins do not publish)
func vfDeliver(res client.Operation, nodes []*vfCNode) {
	for _, m := range res.ResultMsgs {
		for _, o := range nodes {
			if m.RecipientAddr == "" || m.RecipientAddr == o.name {
				o.store(m)
			}
		}
	}
}

func vfSecrets(nodes []*vfCNode, extra ...*vfCNode) []interface{} {
	var s []interface{}
	for _, n := range append(append([]*vfCNode{}, nodes...), extra...) {
		if vf.Symbolic() {
			s = append(s, n.seed)
		} else {
			s = append(s, n.am.baseSeed, n.am.secKey)
			for _, d := range n.am.dkgInstances {
				if dks, err := d.GetDistKeyShare(); err == nil {
					s = append(s, dks.Share.V)
					for _, c := range dks.PrivatePoly {
						s = append(s, c)
					}
				}
			}
		}
	}
	return s
}

type vfKeyringView struct {
	OK      bool
	Index   int
	Share   []byte
	Commits [][]byte
}

func vfKeyring(am *Machine, round string) vfKeyringView {
	k, err := am.loadBLSKeyring(round)
	if err != nil || k == nil || k.Share == nil || k.PubPoly == nil {
		if err != nil {
			vf.Record("keyring-error", err.Error())
		}
		return vfKeyringView{}
	}
	v := vfKeyringView{OK: true, Index: k.Share.I}
	v.Share, _ = k.Share.V.MarshalBinary()
	_, cs := k.PubPoly.Info()
	for _, c := range cs {
		b, _ := c.MarshalBinary()
		v.Commits = append(v.Commits, b)
	}
	return v
}

func vfPolyCommits(bz []byte, am *Machine) ([][]byte, bool) {
	k, err := dkg.LoadPubPolyBLSKeyringFromBytes(am.baseSuite, bz)
	if err != nil || k.PubPoly == nil {
		return nil, false
	}
	var out [][]byte
	_, cs := k.PubPoly.Info()
	for _, c := range cs {
		b, _ := c.MarshalBinary()
		out = append(out, b)
	}
	return out, true
}

// VF_Air_Ceremony: params n, t, tag; optional: sign=1 (signing step), reinit=1 (reinit_dkg on a fresh directory of machine 0),
// twin=1 (C12 twin with a stop point), wrongpw=1 (at-rest clause).
func VF_Air_Ceremony() {
	n, t := vf.ParamInt("n"), vf.ParamInt("t")
	round := "round-one-identifier"
	// the information-flow obligations (C04) are decided in the jobs without a twin; the twin jobs decide C12
	vfPrefixOnly = vf.Param("twin") != "" || vf.Param("noleak") != ""
	defer func() { vfPrefixOnly = false }()
	var nodes []*vfCNode
	for i := 0; i < n; i++ {
		var seed []byte
		if vf.Symbolic() {
			seed = vf.OpaqueBytes("seed" + strconv.Itoa(i))
		}
		nodes = append(nodes, vfNewNode(i, "p"+strconv.Itoa(i), seed, i == 0))
	}
	defer func() {
		for _, o := range nodes {
			os.RemoveAll(o.dir)
		}
	}()
	if vf.Symbolic() {
		for i := 0; i < n; i++ {
			for j := i + 1; j < n; j++ {
				vf.Assume(!vf.BytesEq(nodes[i].seed, nodes[j].seed))
			}
		}
	}
	// the twin of machine 0: same mnemonic, own database; stops once at (step, phase) and is rebuilt by replay
	var twin *vfCNode
	stopStep, stopPhase := -1, 0
	if vf.Param("twin") != "" {
		twin = vfNewNode(0, "twin", nodes[0].seed, true)
		defer os.RemoveAll(twin.dir)
		s := vf.Choose("stop", 2*vfSteps)
		stopStep, stopPhase = s/2, s%2 // phase 0: result computed, nothing logged; phase 1: logged (and result file written)
		if vf.Param("stop2") != "" {
			// a second restart at a later step of the same ceremony
			s2 := vf.Choose("stop2", 2*vfSteps)
			if s2/2 <= stopStep {
				vf.Stop()
			}
			vfStop2Step, vfStop2Phase = s2/2, s2%2
		} else {
			vfStop2Step = -1
		}
		pa, _ := nodes[0].am.pubKey.MarshalBinary()
		pb, _ := twin.am.pubKey.MarshalBinary()
		vf.Assert("seeds-from-mnemonic-and-round:longterm-key", vf.BytesEq(pa, pb))
	}
	secrets := vfSecrets(nodes)

	if !vfRound(nodes, round, t, twin, stopStep, stopPhase) {
		return
	}

	// ---- C02 (airgapped half) ----
	mk0 := nodes[0].masterKeys
	vf.Assert("honest-step-succeeds:announcements", len(mk0) == n)
	if len(mk0) != n {
		return
	}
	for _, a := range mk0 {
		vf.Assert("masterkeys-equal:airgapped", vf.BytesEq(a.MasterKey, mk0[0].MasterKey))
		vf.Assert("poly-agreed:airgapped", vf.BytesEq(a.PubPolyBz, mk0[0].PubPolyBz))
	}
	announced, okp := vfPolyCommits(mk0[0].PubPolyBz, nodes[0].am)
	vf.Assert("poly-commits-to-key", okp && len(announced) == t && vf.BytesEq(announced[0], mk0[0].MasterKey))
	for _, o := range nodes {
		kr := vfKeyring(o.am, round)
		vf.Assert("keyring-from-one-distkey:stored", kr.OK && kr.Index == o.id)
		vf.Assert("keyring-from-one-distkey:poly", vf.Eq(kr.Commits, announced))
		if d, ok := o.am.dkgInstances[round]; ok {
			dks, err := d.GetDistKeyShare()
			if err == nil {
				want, _ := dks.Share.V.MarshalBinary()
				vf.Assert("keyring-from-one-distkey:share", vf.BytesEq(kr.Share, want) && dks.Share.I == kr.Index)
				pub, _ := dks.Public().MarshalBinary()
				vf.Assert("keyring-from-one-distkey:key", vf.BytesEq(pub, mk0[0].MasterKey))
			} else {
				vf.Assert("keyring-from-one-distkey:share", false)
			}
		}
	}
	if twin != nil {
		vf.Assert("crash-replay-equal:keyring", vf.Eq(vfKeyring(twin.am, round), vfKeyring(nodes[0].am, round)))
	}

	// ---- a second round on the same machines (another threshold): each machine holds one keyring per round ----
	if vf.Param("round2") != "" {
		round2, t2 := "round-two-identifier", vf.ParamInt("t2")
		first := make([]vfKeyringView, n)
		for i, o := range nodes {
			first[i] = vfKeyring(o.am, round)
		}
		if !vfRound(nodes, round2, t2, nil, -1, 0) {
			return
		}
		mk2 := nodes[0].masterKeys
		vf.Assert("honest-step-succeeds:announcements", len(mk2) == n)
		if len(mk2) != n {
			return
		}
		announced2, ok2 := vfPolyCommits(mk2[0].PubPolyBz, nodes[0].am)
		vf.Assert("poly-commits-to-key:round2", ok2 && len(announced2) == t2 && vf.BytesEq(announced2[0], mk2[0].MasterKey))
		// (that the two rounds do not share key material is C04's round-separation obligation, VF_Airgapped_Commits)
		for i, o := range nodes {
			// the first round's keyring is still the first round's
			vf.Assert("keyring-from-one-distkey:other-round-untouched", vf.Eq(vfKeyring(o.am, round), first[i]))
			kr2 := vfKeyring(o.am, round2)
			vf.Assert("keyring-from-one-distkey:poly", kr2.OK && vf.Eq(kr2.Commits, announced2))
			// Machine.GetBLSKeyrings(): every round id maps to the keyring of that round
			all, err := o.am.GetBLSKeyrings()
			vf.Assert("keyring-from-one-distkey:listing", err == nil && len(all) == 2)
			if err != nil || len(all) != 2 {
				continue
			}
			for _, r := range []string{round, round2} {
				k := all[r]
				want := vfKeyring(o.am, r)
				okk := k != nil && k.Share != nil && k.PubPoly != nil
				vf.Assert("keyring-from-one-distkey:listing-entry", okk)
				if !okk {
					continue
				}
				sh, _ := k.Share.V.MarshalBinary()
				var cs [][]byte
				_, pts := k.PubPoly.Info()
				for _, c := range pts {
					b, _ := c.MarshalBinary()
					cs = append(cs, b)
				}
				vf.Assert("keyring-from-one-distkey:listing-entry", k.Share.I == want.Index && vf.BytesEq(sh, want.Share) && vf.Eq(cs, want.Commits))
			}
		}
	}

	// ---- C04(4): a later round after a restart shares no signing nonce with the first one ----
	if vf.Param("nonces") != "" {
		roundB := "round-b-identifier"
		if vf.Symbolic() {
			vf.Injective("schnorr.R")     // R = k*G determines the nonce k
			vf.Injective("schnorr.nonce") // the stream of a seeded suite does not repeat, different seeds give unrelated streams
			vf.Injective("sha256")    // stated assumption: SHA-256 is collision-free (the per-round suite seed is sha256(round id || base seed))
		}
		nodes[0].vfReopen()
		if !vfRound(nodes, roundB, t, nil, -1, 0) {
			return
		}
		plen := 48
		if !vf.Symbolic() {
			plen = nodes[0].am.baseSuite.Point().MarshalSize()
		}
		for _, o := range nodes {
			var ra, rb [][]byte
			add := func(id string, sig []byte) {
				if len(sig) < plen {
					return
				}
				if id == round {
					ra = append(ra, sig[:plen])
				} else if id == roundB {
					rb = append(rb, sig[:plen])
				}
			}
			for _, res := range o.results {
				for _, m := range res.ResultMsgs {
					switch res.Event {
					case dkg_proposal_fsm.EventDKGResponseConfirmationReceived:
						var req requests.DKGProposalResponseConfirmationRequest
						var rs []*dkgPedersen.Response
						if json.Unmarshal(m.Data, &req) != nil || json.Unmarshal(req.Response, &rs) != nil {
							continue
						}
						for _, r := range rs {
							if r != nil && r.Response != nil {
								add(res.DKGIdentifier, r.Response.Signature)
							}
						}
					case dkg_proposal_fsm.EventDKGDealConfirmationReceived:
						// the addressee sees the dealer's signatures inside the deal
						var req requests.DKGProposalDealConfirmationRequest
						if json.Unmarshal(m.Data, &req) != nil || string(req.Deal) == "self-confirm" {
							continue
						}
						for _, to := range nodes {
							if to.name != m.RecipientAddr {
								continue
							}
							var d dkgPedersen.Deal
							if p, err := to.am.decryptDataFromParticipant(req.Deal); err == nil && json.Unmarshal(p, &d) == nil {
								add(res.DKGIdentifier, d.Signature)
							}
						}
					}
				}
			}
			vf.Assert("round-separation:nonces:observed", len(ra) == 2*(n-1) && len(rb) == 2*(n-1))
			for _, a := range ra {
				for _, b := range rb {
					// the same Schnorr commitment R in two signatures over different messages reveals the long-term key
					vf.Assert("round-separation:nonces", !vf.BytesEq(a, b))
				}
			}
		}
	}

	// ---- signing: every message once, with the share of this round, under its own id ----
	if vf.Param("sign") != "" {
		msgs := []requests.SigningTask{
			{MessageID: "message-a", File: "a.txt", Payload: vfPayload("payload.a")},
			{MessageID: "message-b", File: "b.txt", Payload: vfPayload("payload.b")},
		}
		src, _ := json.Marshal(msgs)
		pl, _ := json.Marshal(responses.SigningPartialSignsParticipantInvitationsResponse{BatchID: "batch-1", SrcPayload: src})
		for _, o := range nodes[:2] {
			op := client.Operation{ID: "operation-sign", Type: client.OperationType(signing_proposal_fsm.StateSigningAwaitPartialSigns),
				Payload: pl, DKGIdentifier: round, CreatedAt: vf.Time("created.sign")}
			res, err := o.am.GetOperationResult(op)
			ok := err == nil && res.Event == signing_proposal_fsm.EventSigningPartialSignReceived && len(res.ResultMsgs) == 1
			vf.Assert("honest-step-succeeds:sign", ok)
			if !ok {
				return
			}
			if !vfPrefixOnly {
				vf.NoLeak("output-indep-of-secret:sign", res, vfSecrets(nodes)...)
			}
			var req requests.SigningProposalBatchPartialSignRequests
			if json.Unmarshal(res.ResultMsgs[0].Data, &req) != nil {
				vf.Assert("signer-signs-expansion", false)
				return
			}
			vf.Assert("signer-signs-expansion:count", len(req.PartialSigns) == len(msgs) && req.BatchID == "batch-1" && req.ParticipantId == o.id)
			kr, kerr := o.am.loadBLSKeyring(round)
			if kerr != nil || len(req.PartialSigns) != len(msgs) {
				vf.Assert("signer-signs-expansion", false)
				return
			}
			for i, m := range msgs {
				want, _ := tbls.Sign(o.am.baseSuite.(pairing.Suite), kr.Share, m.Payload)
				vf.Assert("signer-signs-expansion:id", req.PartialSigns[i].MessageID == m.MessageID)
				vf.Assert("signer-signs-expansion:share-and-payload", vf.BytesEq(req.PartialSigns[i].Sign, want))
			}
		}
	}

	// ---- reinitialisation of machine 0 on a fresh database from its operation log ----
	if vf.Param("reinit") != "" {
		logOps, _ := nodes[0].am.getOperationsLog(round)
		before := vfKeyring(nodes[0].am, round)
		fresh := vfNewNode(0, "fresh", nodes[0].seed, true)
		defer os.RemoveAll(fresh.dir)
		pl, _ := json.Marshal(logOps)
		op := client.Operation{ID: "operation-reinit", Type: client.OperationType(client.ReinitDKG), Payload: pl, DKGIdentifier: round, CreatedAt: vf.Time("created.reinit")}
		res, err := fresh.am.GetOperationResult(op)
		ok := err == nil && res.Event == client.OperationProcessed
		vf.Assert("airgapped-reinit-replays-requests:succeeds", ok)
		if !ok {
			return
		}
		if !vfPrefixOnly {
			vf.NoLeak("output-indep-of-secret:reinit", res, vfSecrets(nodes, fresh)...)
		}
		got, okp := vfPolyCommits(res.ExtraData, fresh.am)
		vf.Assert("airgapped-reinit-replays-requests:poly", okp && vf.Eq(got, before.Commits))
		vf.Assert("airgapped-reinit-replays-requests:keyring", vf.Eq(vfKeyring(fresh.am, round), before))
		// the same operation on the machine that already holds the round (a surviving machine, or the reinit file read a
		// second time): it answers with the round's public polynomial, and with nothing else
		for i, pl2 := range [][]byte{[]byte("[]"), pl} {
			res2, err2 := nodes[0].am.GetOperationResult(client.Operation{ID: "operation-reinit-2", Type: client.OperationType(client.ReinitDKG), Payload: pl2,
				DKGIdentifier: round, CreatedAt: vf.Time("created.reinit2." + strconv.Itoa(i))})
			ok2 := err2 == nil && res2.Event == client.OperationProcessed
			vf.Assert("airgapped-reinit-replays-requests:existing-round", ok2)
			if ok2 && !vfPrefixOnly {
				vf.NoLeak("output-indep-of-secret:reinit-existing", res2, vfSecrets(nodes, fresh)...)
			}
			if ok2 {
				got2, okp2 := vfPolyCommits(res2.ExtraData, nodes[0].am)
				vf.Assert("airgapped-reinit-replays-requests:existing-round", okp2 && vf.Eq(got2, before.Commits))
			}
		}
	}
	// ---- C04(3): at rest ----
	if vf.Param("atrest") != "" {
		o := nodes[0]
		dump := map[string][]byte{}
		it := o.am.db.NewIterator(nil, nil)
		for it.Next() {
			k := string(it.Key())
			if k == baseSeedKey || k == operationsLogDBKey {
				continue // the seed is stored in the clear by design (documented, outside C04's clause); the log holds inputs
			}
			dump[k] = append([]byte{}, it.Value()...)
		}
		it.Release()
		_, hasKey := dump[privateKeyDBKey]
		_, hasRing := dump[makeBLSKeyKeyringDBKey(round)]
		vf.Assert("atrest-sealed:present", hasKey && hasRing)
		var sec []interface{}
		if vf.Symbolic() {
			sec = vfSecrets(nodes)
		} else {
			kr, _ := o.am.loadBLSKeyring(round)
			sec = []interface{}{o.am.secKey, kr.Share.V}
		}
		vf.NoLeak("atrest-sealed", dump, sec...)
		// another password
		_ = o.am.db.Close()
		am2, err := NewMachine(o.dir)
		if err != nil {
			panic(err)
		}
		wrong := []byte("a-wrong-password")
		if vf.Symbolic() {
			wrong = vf.Bytes("wrongpw", 8)
			vf.Assume(!vf.BytesEq(wrong, o.pw))
		}
		am2.SetEncryptionKey(wrong)
		vf.Assert("wrong-password-fails:keys", am2.LoadKeysFromDB() != nil)
		_, e1 := am2.loadBLSKeyring(round)
		vf.Assert("wrong-password-fails:keyring", e1 != nil)
		_, e2 := am2.GetBLSKeyrings()
		vf.Assert("wrong-password-fails:keyrings", e2 != nil)
		am2.SetEncryptionKey(o.pw)
		vf.Assert("right-password-loads", am2.LoadKeysFromDB() == nil)
		_, e3 := am2.loadBLSKeyring(round)
		vf.Assert("right-password-loads:keyring", e3 == nil)
		// the same process: the password expires (DropSensitiveData), the operator then types a wrong one
		am2.DropSensitiveData()
		am2.SetEncryptionKey(wrong)
		vf.Assert("dropped-password:keys", am2.InitKeys() != nil)
		_, e4 := am2.loadBLSKeyring(round)
		vf.Assert("dropped-password:keyring", e4 != nil)
		_, e5 := am2.GetBLSKeyrings()
		vf.Assert("dropped-password:keyrings", e5 != nil)
		o.am = am2
	}

	_ = secrets
	vf.Assert("witness", false)
}

func vfPayload(name string) []byte { return vf.Bytes(name, 2) }

// vfLastResult: the result operation a machine produces for op in its current state is not kept by ProcessOperation (it goes
// to the result file); the harness reads the result file back.
func vfLastResult(am *Machine, op client.Operation) (client.Operation, error) {
	var res client.Operation
	bz, err := os.ReadFile(am.ResultFolder + "/" + op.Filename() + "_result.json")
	if err != nil {
		return res, err
	}
	err = json.Unmarshal(bz, &res)
	return res, err
}

// what must coincide between the uninterrupted machine and the rebuilt one, per step
func vfCompareStep(step int, want, got client.Operation, nodes []*vfCNode) {
	vf.Assert("crash-replay-equal:event:"+vfStepName[step], want.Event == got.Event && len(want.ResultMsgs) == len(got.ResultMsgs))
	if len(want.ResultMsgs) != len(got.ResultMsgs) {
		return
	}
	switch step {
	case vfStepCommits, vfStepResponses, vfStepMasterKey:
		for i := range want.ResultMsgs {
			vf.Assert("crash-replay-equal:"+vfStepName[step], vf.BytesEq(want.ResultMsgs[i].Data, got.ResultMsgs[i].Data) &&
				want.ResultMsgs[i].RecipientAddr == got.ResultMsgs[i].RecipientAddr)
		}
	case vfStepDeals:
		// ciphertexts are randomised (fresh ephemeral key per encryption): the deals must open to the same plaintext for the
		// same addressee
		open := func(res client.Operation) map[string][]byte {
			out := map[string][]byte{}
			for _, m := range res.ResultMsgs {
				var req requests.DKGProposalDealConfirmationRequest
				if json.Unmarshal(m.Data, &req) != nil {
					continue
				}
				if string(req.Deal) == "self-confirm" {
					out[m.RecipientAddr] = req.Deal
					continue
				}
				for _, o := range nodes {
					if o.name == m.RecipientAddr {
						if p, err := o.am.decryptDataFromParticipant(req.Deal); err == nil {
							out[m.RecipientAddr] = p
						}
					}
				}
			}
			return out
		}
		a, b := open(want), open(got)
		vf.Assert("crash-replay-equal:deals", len(a) == len(want.ResultMsgs) && vf.Eq(a, b))
	}
}

// vfWhy records why a step failed (the error request the machine published)
func vfWhy(res client.Operation) {
	for _, m := range res.ResultMsgs {
		var req requests.DKGProposalConfirmationErrorRequest
		if json.Unmarshal(m.Data, &req) == nil && req.Error != nil {
			vf.Record("step-error", string(res.Event), req.Error.Error())
		}
	}
}

// vfRound: one DKG round on the given machines (the twin, if any, shadows machine 0 and stops once at stopStep/stopPhase)
func vfRound(nodes []*vfCNode, round string, t int, twin *vfCNode, stopStep, stopPhase int) bool {
	return vfRoundN(nodes, round, t, twin, stopStep, stopPhase, vfSteps)
}

// vfRoundUpto: the first upto steps of a genuine round
func vfRoundUpto(nodes []*vfCNode, round string, t int, upto int) bool {
	return vfRoundN(nodes, round, t, nil, -1, 0, upto)
}

func vfRoundN(nodes []*vfCNode, round string, t int, twin *vfCNode, stopStep, stopPhase int, upto int) bool {
	n := len(nodes)
	for _, o := range nodes {
		o.commits, o.deals, o.responses, o.masterKeys = nil, nil, nil, nil
	}
	for step := 0; step < upto; step++ {
		if vfBeforeStep != nil {
			vfBeforeStep(step, nodes)
		}
		var twinOp client.Operation
		results := make([]client.Operation, n)
		for _, o := range nodes {
			op := o.stepOp(step, round, nodes, t)
			if o.id == 0 {
				twinOp = op
			}
			res, err := o.am.GetOperationResult(op)
			ok := err == nil && len(res.ResultMsgs) > 0 && string(res.Event) != "" &&
				res.Event != dkg_proposal_fsm.EventDKGCommitConfirmationError && res.Event != dkg_proposal_fsm.EventDKGDealConfirmationError &&
				res.Event != dkg_proposal_fsm.EventDKGResponseConfirmationError && res.Event != dkg_proposal_fsm.EventDKGMasterKeyConfirmationError
			vf.Assert("honest-step-succeeds:"+vfStepName[step], ok)
			if !ok {
				vfWhy(res)
				return false
			}
			if err := o.am.storeOperation(op); err != nil {
				vf.Assert("honest-step-succeeds:"+vfStepName[step], false)
				return false
			}
			results[o.id] = res
			o.results = append(o.results, res)
			// C04(1): what leaves the machine
			if !vfPrefixOnly {
				vf.NoLeak("output-indep-of-secret:"+vfStepName[step], res, vfSecrets(nodes)...)
			}
		}
		if step == vfStepDeals && !vfPrefixOnly {
			// C04(2): each deal opens with the key of the participant it is addressed to, and with no other key
			for _, m := range results[0].ResultMsgs {
				var req requests.DKGProposalDealConfirmationRequest
				if json.Unmarshal(m.Data, &req) != nil || string(req.Deal) == "self-confirm" {
					continue
				}
				for _, o := range nodes {
					_, derr := o.am.decryptDataFromParticipant(req.Deal)
					if o.name == m.RecipientAddr {
						vf.Assert("deal-key-matches-recipient:opens", derr == nil)
					} else {
						vf.Assert("deal-key-matches-recipient:others-fail", derr != nil)
					}
				}
				vf.Assert("deal-key-matches-recipient:addressed", m.RecipientAddr != "" && m.RecipientAddr != nodes[0].name)
			}
		}
		if twin != nil {
			// the twin sees the same board as machine 0
			twin.commits, twin.deals, twin.responses = nodes[0].commits, nodes[0].deals, nodes[0].responses
			var tres client.Operation
			var terr error
			if step == vfStop2Step && step != stopStep {
				stopStep, stopPhase = vfStop2Step, vfStop2Phase
			}
			if step == stopStep {
				if stopPhase == 0 {
					tres, terr = twin.am.GetOperationResult(twinOp) // computed, the process dies before the log write
				} else {
					_, terr = twin.am.ProcessOperation(twinOp, true)
				}
				vf.Assert("honest-step-succeeds:twin", terr == nil)
				twin.vfReopen()
				vf.Assert("restart-loses-volatile-state", len(twin.am.dkgInstances) == 0)
				rerr := twin.am.ReplayOperationsLog(round)
				if step == 0 && stopPhase == 0 {
					// nothing was ever logged for the round
				} else {
					vf.Assert("replay-succeeds", rerr == nil)
				}
				if stopPhase == 0 {
					_, perr := twin.am.ProcessOperation(twinOp, true) // the operator feeds the unlogged operation again
					vf.Assert("refeed-succeeds", perr == nil)
				}
				tres, terr = vfLastResult(twin.am, twinOp)
			} else {
				_, terr = twin.am.ProcessOperation(twinOp, true)
				if terr == nil {
					tres, terr = vfLastResult(twin.am, twinOp)
				}
			}
			vf.Assert("honest-step-succeeds:twin", terr == nil)
			if terr != nil {
				return false
			}
			vfCompareStep(step, results[0], tres, nodes)
			lu, _ := nodes[0].am.getOperationsLog(round)
			lt, _ := twin.am.getOperationsLog(round)
			vf.Assert("replay-does-not-log", len(lu) == len(lt))
		}
		for _, o := range nodes {
			vfDeliver(results[o.id], nodes)
		}
	}

	return true
}
