package airgapped

// C18, airgapped machine: whatever operation file is fed to the machine in whatever state of a ceremony, processing ends
// with a result operation (possibly an error result) or an error - never with a panic; a refused operation leaves the
// machine's durable key material untouched.
// The operations are structure-aware mutants of the genuine operation of a step: the victim (machine 1) has gone through
// the genuine ceremony up to that step; the payload entry of participant 0 (the attacker: any participant may post such a
// message) is replaced by a crafted one whose fields are symbolic.

import (
	"encoding/json"
	"os"

	dkgPedersen "github.com/corestario/kyber/share/dkg/pedersen"
	vssPedersen "github.com/corestario/kyber/share/vss/pedersen"

	client "github.com/lidofinance/dc4bc/client/types"
	"github.com/lidofinance/dc4bc/fsm/state_machines/signing_proposal_fsm"
	"github.com/lidofinance/dc4bc/fsm/types/requests"
	"github.com/lidofinance/dc4bc/fsm/types/responses"
	"github.com/lidofinance/dc4bc/internal/vf"
)

func vfU32(name string) uint32 { return uint32(vf.Uint64(name)) }

// vfName3: a participant name: the attacker's own, the victim's, or an unknown one
func vfNameChoice(name string, nodes []*vfCNode) string {
	switch vf.Choose(name, 3) {
	case 0:
		return nodes[0].name
	case 1:
		return nodes[1].name
	}
	return "nobody"
}

func vfDBDump(am *Machine) map[string][]byte {
	dump := map[string][]byte{}
	it := am.db.NewIterator(nil, nil)
	for it.Next() {
		k := string(it.Key())
		if k == operationsLogDBKey {
			continue
		}
		dump[k] = append([]byte{}, it.Value()...)
	}
	it.Release()
	return dump
}

// VF_Air_Arbitrary: params tag, step (0..3 DKG steps, 4 signing, 5 reinit, 6 unknown type), n=2 t=2.
func VF_Air_Arbitrary() {
	n, t := 2, 2
	step := vf.ParamInt("step")
	round := "round-one-identifier"
	var nodes []*vfCNode
	for i := 0; i < n; i++ {
		var seed []byte
		if vf.Symbolic() {
			seed = vf.OpaqueBytes("seed" + string(rune('0'+i)))
		}
		nodes = append(nodes, vfNewNode(i, "a"+string(rune('0'+i)), seed, i == 0))
	}
	defer func() {
		for _, o := range nodes {
			os.RemoveAll(o.dir)
		}
	}()
	if vf.Symbolic() {
		vf.Assume(!vf.BytesEq(nodes[0].seed, nodes[1].seed))
	}
	vfPrefixOnly = true
	defer func() { vfPrefixOnly = false }()
	upto := step
	if step > vfSteps {
		upto = vfSteps
	}
	if !vfRoundUpto(nodes, round, t, upto) {
		vf.Unreachable("genuine-prefix")
		return
	}
	attacker, victim := nodes[0], nodes[1]
	created := vf.Time("created.mutant")
	op := client.Operation{ID: "operation-mutant", DKGIdentifier: round, CreatedAt: created}
	if vf.Param("otherround") != "" {
		op.DKGIdentifier = "a-round-the-machine-never-saw"
	}
	switch step {
	case vfStepCommits:
		op.Type = client.OperationType(vfStepType[step])
		var p responses.DKGProposalPubKeysParticipantResponse
		kind := vfKind("commits.kind", 5)
		vpk, _ := victim.am.pubKey.MarshalBinary()
		apk, _ := attacker.am.pubKey.MarshalBinary()
		switch kind {
		case 0: // empty list
		case 1: // without the victim's key
			p = append(p, &responses.DKGProposalPubKeysParticipantEntry{ParticipantId: vf.Int("c.pid0"), Username: attacker.name, DkgPubKey: apk, Threshold: vf.Int("c.t")})
		case 2: // arbitrary ids and threshold
			p = append(p, &responses.DKGProposalPubKeysParticipantEntry{ParticipantId: vf.Int("c.pid0"), Username: attacker.name, DkgPubKey: apk, Threshold: vf.Int("c.t")},
				&responses.DKGProposalPubKeysParticipantEntry{ParticipantId: vf.Int("c.pid1"), Username: victim.name, DkgPubKey: vpk, Threshold: vf.Int("c.t1")})
		case 3: // an undecodable key first
			p = append(p, &responses.DKGProposalPubKeysParticipantEntry{ParticipantId: 0, Username: attacker.name, DkgPubKey: vfJunk("c.junk"), Threshold: 2},
				&responses.DKGProposalPubKeysParticipantEntry{ParticipantId: 1, Username: victim.name, DkgPubKey: vpk, Threshold: 2})
		case 4: // an undecodable key after the victim's, a nil entry is not expressible in this type (slice of pointers: null entry)
			p = append(p, &responses.DKGProposalPubKeysParticipantEntry{ParticipantId: 1, Username: victim.name, DkgPubKey: vpk, Threshold: vf.Int("c.t")},
				&responses.DKGProposalPubKeysParticipantEntry{ParticipantId: 0, Username: vfNameChoice("c.name", nodes), DkgPubKey: vfJunk("c.junk"), Threshold: 2})
		}
		op.Payload, _ = json.Marshal(p)
	case vfStepDeals:
		op.Type = client.OperationType(vfStepType[step])
		var p responses.DKGProposalCommitParticipantResponse
		own := victim.commits // genuine entries the victim saw
		for _, r := range own {
			if r.ParticipantId == victim.id {
				p = append(p, &responses.DKGProposalCommitParticipantEntry{ParticipantId: r.ParticipantId, Username: vfPName(r.ParticipantId), DkgCommit: r.Commit})
			}
		}
		var crafted []byte
		switch vfKind("deals.kind", 4) {
		case 0:
			crafted = vfJunk("d.junk") // not JSON / arbitrary
		case 1:
			crafted, _ = json.Marshal([][]byte{}) // no commitments
		case 2:
			crafted, _ = json.Marshal([][]byte{vfJunk("d.point")}) // an undecodable point
		case 3:
			crafted, _ = json.Marshal([][]byte{nil, nil, nil})
		}
		p = append(p, &responses.DKGProposalCommitParticipantEntry{ParticipantId: vf.Int("d.pid"), Username: vfNameChoice("d.name", nodes), DkgCommit: crafted})
		op.Payload, _ = json.Marshal(p)
	case vfStepResponses:
		op.Type = client.OperationType(vfStepType[step])
		var p responses.DKGProposalDealParticipantResponse
		var deal dkgPedersen.Deal
		deal.Index = vfU32("r.index")
		deal.Signature = vfJunk("r.sig")
		kind := vfKind("resp.kind", 5)
		switch kind {
		case 0: // no encrypted deal inside
		case 1:
			deal.Deal = &vssPedersen.EncryptedDeal{}
		case 2:
			deal.Deal = &vssPedersen.EncryptedDeal{DHKey: vfJunk("r.dh"), Signature: vfJunk("r.dsig"), Nonce: vfJunk("r.nonce"), Cipher: vfJunk("r.cipher")}
		case 3: // the genuine deal of the attacker with another dealer index
			for _, r := range victim.deals {
				if r.ParticipantId == attacker.id {
					if pl, err := victim.am.decryptDataFromParticipant(r.Deal); err == nil {
						_ = json.Unmarshal(pl, &deal)
					}
				}
			}
			deal.Index = vfU32("r.index2")
		}
		var enc []byte
		if kind != 4 {
			dealBz, _ := json.Marshal(deal)
			enc, _ = attacker.am.encryptDataForParticipant(round, victim.name, dealBz)
		} else {
			// something that decrypts but is not a deal at all
			enc, _ = attacker.am.encryptDataForParticipant(round, victim.name, vfJunk("r.plain"))
		}
		p = append(p, &responses.DKGProposalDealParticipantEntry{ParticipantId: vf.Int("r.pid"), Username: vfNameChoice("r.name", nodes), DkgDeal: enc})
		op.Payload, _ = json.Marshal(p)
	case vfStepMasterKey:
		op.Type = client.OperationType(vfStepType[step])
		var p responses.DKGProposalResponseParticipantResponse
		var rs []*dkgPedersen.Response
		mk := vfKind("mk.kind", 6)
		switch mk {
		case 0:
			rs = []*dkgPedersen.Response{nil}
		case 1:
			rs = []*dkgPedersen.Response{{Index: vfU32("m.index")}}
		case 2:
			rs = []*dkgPedersen.Response{{Index: vfU32("m.index"), Response: &vssPedersen.Response{SessionID: vfJunk("m.sid"), Index: vfU32("m.rindex"),
				Status: vf.Bool("m.status"), Signature: vfJunk("m.sig")}}}
		case 3: // the same response twice
			r := &dkgPedersen.Response{Index: uint32(victim.id), Response: &vssPedersen.Response{SessionID: []byte("session"), Index: uint32(attacker.id), Status: true, Signature: []byte("sig")}}
			rs = []*dkgPedersen.Response{r, r}
		case 4: // no responses at all
		}
		bz, _ := json.Marshal(rs)
		if mk == 5 {
			bz = vfJunk("m.junk")
		}
		p = append(p, &responses.DKGProposalResponseParticipantEntry{ParticipantId: vf.Int("m.pid"), Username: vfNameChoice("m.name", nodes), DkgResponse: bz})
		op.Payload, _ = json.Marshal(p)
	case 4: // signing
		op.Type = client.OperationType(signing_proposal_fsm.StateSigningAwaitPartialSigns)
		var src []byte
		switch vfKind("sign.kind", 3) {
		case 0:
			src = vfJunk("s.src")
		case 1:
			src, _ = json.Marshal([]requests.SigningTask{})
		case 2:
			src, _ = json.Marshal([]requests.SigningTask{{MessageID: vf.Str("s.id"), File: vf.Str("s.file"), Payload: nil}})
		}
		op.Payload, _ = json.Marshal(responses.SigningPartialSignsParticipantInvitationsResponse{BatchID: vf.Str("s.batch"), SrcPayload: src})
	case 5: // reinit
		op.Type = client.OperationType(client.ReinitDKG)
		var inner []client.Operation
		rk := vfKind("re.kind", 5)
		switch rk {
		case 0:
		case 1:
			inner = []client.Operation{{ID: vf.Str("re.id"), Type: client.OperationType(vf.Str("re.type")), Payload: vfJunk("re.payload"), DKGIdentifier: vf.Str("re.round")}}
		case 2: // a reinit inside a reinit
			inner = []client.Operation{{ID: "x", Type: client.OperationType(client.ReinitDKG), Payload: []byte("[]"), DKGIdentifier: round}}
		case 3: // the genuine log fed to the machine that already holds the round
			inner, _ = victim.am.getOperationsLog(round)
		}
		op.Payload, _ = json.Marshal(inner)
		if rk == 4 {
			op.Payload = vfJunk("re.junk")
		}
	default:
		op.Type = client.OperationType(vf.Str("op.type"))
		op.Payload = vfJunk("op.payload")
	}

	before := vfDBDump(victim.am)
	panicked := false
	var perr error
	func() {
		defer func() {
			if r := recover(); r != nil {
				panicked = true
				vf.Record("panic", r)
			}
		}()
		_, perr = victim.am.ProcessOperation(op, true)
	}()
	vf.Assert("nopanic:airgapped:"+vf.Param("stepname"), !panicked)
	if panicked {
		return
	}
	refused := perr != nil
	if !refused {
		if res, err := vfLastResult(victim.am, op); err == nil {
			refused = vfIsErrorEvent(string(res.Event))
		}
	}
	if refused {
		// a refused operation must not have changed the key material (long-term keys, keyrings, seed)
		vf.Assert("rejected-durable-noop:airgapped", vf.Eq(vfDBDump(victim.am), before))
	}
	// whatever the mutant did, the genuine operations of this and of the next step (or an empty one) must not crash the machine
	if step < vfSteps && op.DKGIdentifier == round {
		follow := []client.Operation{victim.stepOp(step, round, nodes, t)}
		if step+1 < vfSteps {
			next := victim.stepOp(step+1, round, nodes, t)
			next.Payload = []byte("[]")
			follow = append(follow, next)
		}
		for _, f := range follow {
			f.ID = f.ID + "-after-mutant"
			func() {
				defer func() {
					if r := recover(); r != nil {
						panicked = true
						vf.Record("panic", r)
					}
				}()
				_, _ = victim.am.ProcessOperation(f, true)
			}()
		}
		vf.Assert("nopanic:airgapped:"+vf.Param("stepname")+":followup", !panicked)
	}
	vf.Assert("witness", false)
}

func vfIsErrorEvent(ev string) bool {
	switch ev {
	case "event_dkg_commit_confirm_canceled_by_error", "event_dkg_deal_confirm_canceled_by_error", "event_dkg_response_confirm_canceled_by_error",
		"event_dkg_master_key_confirm_canceled_by_error", "event_signing_partial_sign_error_received", "event_sig_proposal_decline_by_participant",
		"signature_reconstruction_failed", "":
		return true
	}
	return false
}

func vfJunk(name string) []byte { return vf.OpaqueBytes(name) }

// VF_Air_Complaint (C11 at machine level): n=3, t=2. The three machines run commitments, deals and responses honestly; the
// board then carries, in participant 1's response message, a validly signed COMPLAINT (status false) against dealer 0's
// (or dealer 2's) deal. The bystander (the third machine) given that message at the master-key step must answer with the
// error event and must not store a keyring: a round in which a dealer was accused never becomes signing-ready on an honest machine.
func VF_Air_Complaint() {
	n, t := 3, 2
	round := "round-one-identifier"
	vfPrefixOnly = true
	defer func() { vfPrefixOnly = false }()
	var nodes []*vfCNode
	for i := 0; i < n; i++ {
		var seed []byte
		if vf.Symbolic() {
			seed = vf.OpaqueBytes("seed" + string(rune('0'+i)))
		}
		nodes = append(nodes, vfNewNode(i, "k"+string(rune('0'+i)), seed, i == 0))
	}
	defer func() {
		for _, o := range nodes {
			os.RemoveAll(o.dir)
		}
	}()
	if vf.Symbolic() {
		vf.Assume(!vf.BytesEq(nodes[0].seed, nodes[1].seed))
		vf.Assume(!vf.BytesEq(nodes[0].seed, nodes[2].seed))
		vf.Assume(!vf.BytesEq(nodes[1].seed, nodes[2].seed))
	}
	if !vfRoundUpto(nodes, round, t, vfStepMasterKey) {
		vf.Unreachable("genuine-prefix")
		return
	}
	accuser, accused := 1, vf.Choose("accused", 2)*2 // dealer 0 (a third party) or dealer 2 (the bystander itself)
	for _, by := range nodes {
		if by.id == accuser || by.id == accused {
			// the accused dealer's own machine is not a bystander: kyber lets a dealer justify its own deal locally
			// (DistKeyGenerator.ProcessResponse -> dealer.ProcessResponse -> ProcessJustification), so it carries on alone -
			// dc4bc never exchanges justifications (observation recorded in DESIGN 9.6, outside C11 as stated)
			continue
		}
		found := false
		for i := range by.responses {
			if by.responses[i].ParticipantId != accuser {
				continue
			}
			var rs []*dkgPedersen.Response
			if json.Unmarshal(by.responses[i].Response, &rs) != nil {
				continue
			}
			for _, r := range rs {
				if r != nil && r.Response != nil && int(r.Index) == accused {
					r.Response.Status = false
					vfResign(nodes[accuser].am, r.Response)
					found = true
				}
			}
			by.responses[i].Response, _ = json.Marshal(rs)
		}
		vf.Assert("complaint-delivered", found)
		op := by.stepOp(vfStepMasterKey, round, nodes, t)
		res, err := by.am.GetOperationResult(op)
		// any deviation => the machine publishes the error event for this step (every FSM then cancels the round, C05)
		vf.Assert("deviation-yields-error-event:complaint", err == nil && string(res.Event) == "event_dkg_master_key_confirm_canceled_by_error")
		_, kerr := by.am.loadBLSKeyring(round)
		vf.Assert("no-keyring-after-cancel:complaint", kerr != nil)
	}
	vf.Assert("witness", false)
}

// vfKind: the mutant kind; fixed by the job (param "kind") so that kinds run in parallel, otherwise a choice point
func vfKind(name string, n int) int {
	if vf.Param("kind") != "" {
		k := vf.ParamInt("kind")
		if k >= n {
			vf.Stop()
		}
		return k
	}
	return vf.Choose(name, n)
}
