package airgapped

// Airgapped machine, first DKG step (commitments), at contract level:
//  C04 round-separation: two rounds with different identifiers on the same machine must not share the dealer polynomial.
//  C12 seeds: two machines created from the same seed and fed the same operation publish identical keys and commitments.

import (
	"encoding/json"
	"os"

	"github.com/corestario/kyber/pairing/bls12381"

	client "github.com/lidofinance/dc4bc/client/types"
	"github.com/lidofinance/dc4bc/dkg"
	"github.com/lidofinance/dc4bc/fsm/state_machines/dkg_proposal_fsm"
	"github.com/lidofinance/dc4bc/fsm/types/requests"
	"github.com/lidofinance/dc4bc/fsm/types/responses"
	"github.com/lidofinance/dc4bc/internal/vf"
)

const vfMnemonic = "abandon abandon abandon abandon abandon abandon abandon abandon abandon abandon abandon abandon abandon abandon abandon abandon abandon abandon abandon abandon abandon abandon abandon art"

// vfMachine: a machine whose base seed is the one derived from vfMnemonic (natively: a real machine on a temp dir;
// symbolically: the same fields set directly, the seed being 32 symbolic bytes shared by all machines of the path).
func vfMachine(tag string, seed []byte) *Machine {
	if vf.Symbolic() {
		// every machine owns its seed bytes (two machines built from the same mnemonic do not share memory)
		am := &Machine{dkgInstances: make(map[string]*dkg.DKG), baseSeed: append([]byte{}, seed...)}
		am.baseSuite = bls12381.NewBLS12381Suite(am.baseSeed)
		// what GenerateKeys does (without the encrypted store)
		am.secKey = am.baseSuite.Scalar().Pick(am.baseSuite.RandomStream())
		am.pubKey = am.baseSuite.Point().Mul(am.secKey, nil)
		return am
	}
	dir := os.TempDir() + "/vf_airgapped_" + vf.Param("tag") + "_" + tag
	os.RemoveAll(dir)
	am, err := NewMachine(dir)
	if err != nil {
		panic(err)
	}
	am.SetEncryptionKey([]byte("password"))
	if err := am.SetBaseSeed(vfMnemonic); err != nil {
		panic(err)
	}
	if err := am.GenerateKeys(); err != nil {
		panic(err)
	}
	am.SetResultFolder(dir)
	return am
}

func vfCommitsOp(am *Machine, other *Machine, round string, t int) client.Operation {
	ownPub, _ := am.pubKey.MarshalBinary()
	otherPub, _ := other.pubKey.MarshalBinary()
	payload, _ := json.Marshal(responses.DKGProposalPubKeysParticipantResponse{
		{ParticipantId: 0, Username: "p0", DkgPubKey: ownPub, Threshold: t},
		{ParticipantId: 1, Username: "p1", DkgPubKey: otherPub, Threshold: t},
	})
	return client.Operation{ID: "operation-" + round, Type: client.OperationType(dkg_proposal_fsm.StateDkgCommitsAwaitConfirmations),
		Payload: payload, DKGIdentifier: round, CreatedAt: vf.Time("created." + round)}
}

func vfPublishedCommit(res client.Operation) ([]byte, bool) {
	if res.Event != dkg_proposal_fsm.EventDKGCommitConfirmationReceived || len(res.ResultMsgs) != 1 {
		return nil, false
	}
	var req requests.DKGProposalCommitConfirmationRequest
	if err := json.Unmarshal(res.ResultMsgs[0].Data, &req); err != nil {
		return nil, false
	}
	return req.Commit, true
}

func VF_Airgapped_Commits() {
	t := 2
	var seed, seed2 []byte
	if vf.Symbolic() {
		seed = vf.Bytes("baseSeed", 32)
		seed2 = vf.Bytes("otherSeed", 32)
		vf.Assume(!vf.BytesEq(seed, seed2))
	}
	a := vfMachine("a", seed)
	other := vfMachine("o", seed2)
	if !vf.Symbolic() {
		// a different participant: natively a machine with its own random seed
		dir := os.TempDir() + "/vf_airgapped_" + vf.Param("tag") + "_o2"
		os.RemoveAll(dir)
		o2, err := NewMachine(dir)
		if err != nil {
			panic(err)
		}
		o2.SetEncryptionKey([]byte("password"))
		if err := o2.GenerateKeys(); err != nil {
			panic(err)
		}
		other = o2
	}
	// two rounds on the same machine; the round identifiers differ
	r1, r2 := "round-one-identifier", "round-two-identifier"
	res1, err1 := a.GetOperationResult(vfCommitsOp(a, other, r1, t))
	res2, err2 := a.GetOperationResult(vfCommitsOp(a, other, r2, t))
	c1, ok1 := vfPublishedCommit(res1)
	c2, ok2 := vfPublishedCommit(res2)
	vf.Assert("commits-step-succeeds", err1 == nil && err2 == nil && ok1 && ok2)
	if !(ok1 && ok2) {
		return
	}
	// C04(4): nothing a participant learns in one round helps against another: the dealer polynomials (hence the
	// published commitments) of two rounds must be unrelated
	vf.Assert("round-separation", !vf.BytesEq(c1, c2))

	// C12: a second machine created from the same seed, fed the same operation, publishes the same key and commitments
	b := vfMachine("b", seed)
	pa, _ := a.pubKey.MarshalBinary()
	pb, _ := b.pubKey.MarshalBinary()
	vf.Assert("seeds-from-mnemonic-and-round:longterm-key", vf.BytesEq(pa, pb))
	resB, errB := b.GetOperationResult(vfCommitsOp(b, other, r1, t))
	cb, okb := vfPublishedCommit(resB)
	vf.Assert("seeds-from-mnemonic-and-round:commitments", vf.And(errB == nil, okb, vf.BytesEq(cb, c1)))
	vf.Assert("witness", false)
}

// vfOpenMachine: a machine on a state directory. first: the operator enters the mnemonic (set_seed) and generates the keys;
// otherwise (a restart on the same directory) the machine is brought up the way cmd/airgapped does it: NewMachine loads
// the stored base seed, the password unlocks the stored keys (InitKeys) - the mnemonic is NOT entered again.
func vfOpenMachine(dir string, prev *Machine) *Machine {
	am, err := NewMachine(dir)
	if err != nil {
		panic(err)
	}
	am.SetResultFolder(dir)
	if vf.Symbolic() {
		if prev == nil {
			if err := am.SetBaseSeed(vfMnemonic); err != nil {
				panic(err)
			}
			am.secKey = am.baseSuite.Scalar().Pick(am.baseSuite.RandomStream())
			am.pubKey = am.baseSuite.Point().Mul(am.secKey, nil)
			return am
		}
		// the encrypted key store (scrypt/AES-GCM/gob) is outside the executor: the stored keys are the ones generated before
		am.secKey, am.pubKey = prev.secKey, prev.pubKey
		return am
	}
	am.SetEncryptionKey([]byte("password"))
	if prev == nil {
		if err := am.SetBaseSeed(vfMnemonic); err != nil {
			panic(err)
		}
		if err := am.GenerateKeys(); err != nil {
			panic(err)
		}
		return am
	}
	if err := am.InitKeys(); err != nil {
		panic(err)
	}
	return am
}

type vfDKGView struct {
	Exists    bool
	PID, N, T int
	Commits   [][]byte
}

func vfView(am *Machine, round string) vfDKGView {
	d, ok := am.dkgInstances[round]
	if !ok {
		return vfDKGView{}
	}
	v := vfDKGView{Exists: true, PID: d.ParticipantID, N: d.N, T: d.Threshold}
	for _, c := range d.GetCommits() {
		b, _ := c.MarshalBinary()
		v.Commits = append(v.Commits, b)
	}
	return v
}

// VF_Airgapped_Replay: a machine stopped after the commitments step and rebuilt from its operation log continues
// identically; replaying does not log again; an operation that was computed but never logged is simply fed again.
func VF_Airgapped_Replay() {
	t := 2
	round := "round-one-identifier"
	base := os.TempDir() + "/vf_airgapped_" + vf.Param("tag")
	dirU, dirC, dirO := base+"_u", base+"_c", base+"_o"
	os.RemoveAll(dirU)
	os.RemoveAll(dirC)
	os.RemoveAll(dirO)
	defer os.RemoveAll(dirU)
	defer os.RemoveAll(dirC)
	defer os.RemoveAll(dirO)
	var other *Machine
	if vf.Symbolic() {
		other = vfMachine("o", vf.Bytes("otherSeed", 32))
	} else {
		o, err := NewMachine(dirO)
		if err != nil {
			panic(err)
		}
		o.SetEncryptionKey([]byte("password"))
		if err := o.GenerateKeys(); err != nil {
			panic(err)
		}
		other = o
	}
	// uninterrupted machine
	u := vfOpenMachine(dirU, nil)
	prior := vf.Param("prior") != ""
	if prior {
		// the process has already handled the first step of an EARLIER round (same participants) before this one
		if _, err := u.ProcessOperation(vfCommitsOp(u, other, "an-earlier-round-identifier", t), true); err != nil {
			vf.Assert("commits-step-succeeds", false)
			return
		}
	}
	op := vfCommitsOp(u, other, round, t)
	if _, err := u.ProcessOperation(op, true); err != nil {
		vf.Assert("commits-step-succeeds", false)
		return
	}
	want := vfView(u, round)
	logU, _ := u.getOperationsLog(round)

	// interrupted machine: where did it stop?
	stop := vf.Choose("stop", 3) // 0: before the step; 1: step computed, never logged (crash before the log write); 2: after the step was logged
	c := vfOpenMachine(dirC, nil)
	if prior {
		_, _ = c.ProcessOperation(vfCommitsOp(c, other, "an-earlier-round-identifier", t), true)
	}
	opC := vfCommitsOp(c, other, round, t)
	switch stop {
	case 1:
		_, _ = c.GetOperationResult(opC)
	case 2:
		_, _ = c.ProcessOperation(opC, true)
	}
	_ = c.db.Close()
	// restart: volatile state is gone, the database stays
	c2 := vfOpenMachine(dirC, c)
	vf.Assert("restart-loses-volatile-state", !vfView(c2, round).Exists)
	rerr := c2.ReplayOperationsLog(round)
	if stop == 2 {
		vf.Assert("replay-succeeds", rerr == nil)
	} else {
		// nothing was logged for this round: the operator feeds the operation again
		_, perr := c2.ProcessOperation(vfCommitsOp(c2, other, round, t), true)
		vf.Assert("refeed-succeeds", perr == nil)
	}
	got := vfView(c2, round)
	vf.Assert("crash-replay-equal", vf.Eq(got, want))
	logC, _ := c2.getOperationsLog(round)
	vf.Assert("replay-does-not-log", len(logC) == len(logU))
	vf.Assert("witness", false)
}
