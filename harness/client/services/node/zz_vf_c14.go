package node

// C14: an API request concurrent with the poller behaves like one of the two serial orders.
// Context switches happen at every state-store call and board send (vf.Yield in the decorators), bounded pre-emptions.

import (
	"encoding/json"

	"github.com/lidofinance/dc4bc/client/api/dto"
	spf "github.com/lidofinance/dc4bc/fsm/state_machines/signature_proposal_fsm"
	"github.com/lidofinance/dc4bc/fsm/types/responses"
	"github.com/lidofinance/dc4bc/client/types"
	"github.com/lidofinance/dc4bc/fsm/fsm"
	"github.com/lidofinance/dc4bc/fsm/state_machines"
	"github.com/lidofinance/dc4bc/internal/vf"
	"github.com/lidofinance/dc4bc/storage"
)

type vfOutcome struct {
	Pub   vfPublic
	Board int
}

// VF_C14_Pair: params abs, event (the board message), api ("operation").
func VF_C14_Pair() {
	abs := vf.Param("abs")
	ev := vf.Param("event")
	n := state_machines.VFAbsN(abs)
	vf.Injective("md5")
	vf.Injective("hex")
	vf.Injective("b64")
	dump, _ := state_machines.VFDump(abs, "round")
	msg := vfGenuineMessage(ev, 1)
	// an operation issued earlier, whose result the operator submits through the API right now
	// (param apiround: the round that operation belongs to - this round, or another round the node takes part in)
	apiRound := "round"
	if r := vf.Param("apiround"); r != "" {
		apiRound = r
	}
	approve := vf.Param("api") == "approve"
	pend := types.NewOperation(apiRound, []byte("earlier-request"), "state_earlier")
	if approve {
		// the pending operation is the invitation to take part in a round; the operator approves it through the API
		pub, _ := state_machines.VFKeyPair(0)
		invitation, _ := json.Marshal(responses.SignatureProposalParticipantInvitationsResponse{
			{ParticipantId: 0, Username: state_machines.VFUser(0), PubKey: pub, Threshold: 2},
			{ParticipantId: 1, Username: state_machines.VFUser(1), PubKey: []byte("another-participant-key"), Threshold: 2}})
		pend = types.NewOperation(apiRound, invitation, spf.StateAwaitParticipantsConfirmations)
	}
	result := &dto.OperationDTO{ID: pend.ID, Type: string(pend.Type), Payload: pend.Payload, DkgID: apiRound, Event: fsm.Event("event_earlier_result"),
		ResultMsgs: []storage.Message{{Event: "event_earlier_result", DkgRoundID: apiRound, Data: []byte("answer")}}}

	run := func(tag string, mode int) vfOutcome {
		path := vfStatePath(tag)
		vfCleanup(path)
		defer vfCleanup(path)
		board := &vfBoard{}
		e, err := vfOpenNode(path, 0, board)
		if err != nil {
			vf.Unreachable("open-node")
			return vfOutcome{}
		}
		_ = e.fsm.SaveFSM("round", dump)
		_ = e.ops.PutOperation(pend)
		poller := func() {
			// what one Poll tick does for one message addressed to us
			_ = e.node.ProcessMessage(msg)
			_ = e.node.getState().SaveOffset(1)
		}
		r := *result
		r.ResultMsgs = append([]storage.Message{}, result.ResultMsgs...)
		api := func() { _ = e.node.ProcessOperation(&r) }
		if approve {
			api = func() { _ = e.node.ApproveParticipation(&dto.OperationIdDTO{OperationID: pend.ID}) }
		}
		if vf.Param("api") == "reset" {
			// the operator resets the state (a new, empty state database takes over) while the poller is at work
			vfCleanup(path + "_reset")
			defer vfCleanup(path + "_reset")
			api = func() { _, _ = e.fsm.ResetFSMState(&dto.ResetStateDTO{NewStateDBDSN: path + "_reset"}) }
		}
		switch mode {
		case 0:
			poller()
			api()
		case 1:
			api()
			poller()
		default:
			vf.Par(poller, api)
		}
		return vfOutcome{Pub: vfPublicState(e, n), Board: len(board.sent)}
	}
	ab := run("ab", 0)
	ba := run("ba", 1)
	il := run("il", 2)
	apiName := "operation"
	if vf.Param("api") == "reset" {
		apiName = "reset"
	}
	vf.Assert("serializable:"+apiName+"/"+ev, vf.Or(vf.Eq(il, ab), vf.Eq(il, ba)))
	if apiName == "reset" {
		vf.Assert("witness", false)
		return
	}
	// the specific losses the statement names
	for id := range ab.Pub.Ops {
		if _, both := ba.Pub.Ops[id]; both {
			_, kept := il.Pub.Ops[id]
			vf.Assert("no-lost-op", kept)
		}
	}
	_, zombie := il.Pub.Ops[pend.ID]
	vf.Assert("no-zombie-op", !zombie)
	vf.Assert("no-lost-round-update", vf.Or(vf.Eq(il.Pub.Round, ab.Pub.Round), vf.Eq(il.Pub.Round, ba.Pub.Round)))
	vf.Assert("no-lost-offset", il.Pub.Offset == ab.Pub.Offset)
	vf.Assert("witness", false)
}
