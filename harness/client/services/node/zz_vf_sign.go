package node

// Signing at node level: C01 (reconstructed signatures are Sig(poly, proposed payload) whatever subset/order),
// C03 (what is reconstructed/stored is what was proposed), C07 (every batch with t honest answers ends stored, late
// answers of slow participants do not disturb later batches).

import (
	"crypto/ed25519"
	"encoding/json"
	"strconv"

	"github.com/corestario/kyber"
	"github.com/corestario/kyber/pairing"
	"github.com/corestario/kyber/pairing/bls12381"
	"github.com/corestario/kyber/share"
	"github.com/corestario/kyber/sign/bls"
	"github.com/corestario/kyber/sign/tbls"

	"github.com/lidofinance/dc4bc/client/api/dto"
	"github.com/lidofinance/dc4bc/dkg"
	"github.com/lidofinance/dc4bc/fsm/state_machines"
	"github.com/lidofinance/dc4bc/fsm/types/requests"
	"github.com/lidofinance/dc4bc/internal/vf"
	"github.com/lidofinance/dc4bc/storage"
)

// vfCrypto: the group key material of a finished DKG. Symbolically: commitment encodings are symbolic bytes, shares are
// (index, symbolic value) with the validity predicate assumed for honest signers, the expected signature is the UF
// bls.sig(poly, msg). Natively (replay): a real kyber polynomial, real shares, the real BLS signature.
type vfCrypto struct {
	n, t    int
	commits [][]byte
	// native only
	suite pairing.Suite
	pri   *share.PriPoly
}

func vfNewCrypto(n, t int) *vfCrypto { return vfNewCryptoTag(n, t, "") }

func vfNewCryptoTag(n, t int, tag string) *vfCrypto {
	c := &vfCrypto{n: n, t: t}
	if vf.Symbolic() {
		for i := 0; i < t; i++ {
			c.commits = append(c.commits, vf.Bytes(tag+"commit"+strconv.Itoa(i), 2))
		}
		return c
	}
	c.suite = bls12381.NewBLS12381Suite(nil).(pairing.Suite)
	c.pri = share.NewPriPoly(c.suite.G1(), t, nil, c.suite.RandomStream())
	pub := c.pri.Commit(c.suite.G1().Point().Base())
	_, cs := pub.Info()
	for _, p := range cs {
		b, _ := p.MarshalBinary()
		c.commits = append(c.commits, b)
	}
	c.activate()
	return c
}

// activate: natively, bls.sig(poly, msg) is evaluated with this round's group secret from now on
func (c *vfCrypto) activate() {
	if vf.Symbolic() {
		return
	}
	vf.RegisterUFBytes("bls.sig", func(in ...[]byte) []byte {
		s, _ := bls.Sign(c.suite, c.pri.Secret(), in[1])
		return s
	})
}

func (c *vfCrypto) polyConcat() []byte {
	var out []byte
	for _, b := range c.commits {
		out = append(out, b...)
	}
	return out
}

func (c *vfCrypto) pubPolyBz() []byte {
	if vf.Symbolic() {
		bz, _ := json.Marshal(struct {
			Commitments [][]byte `json:"commitments"`
			Share       []byte   `json:"share"`
		}{Commitments: c.commits})
		return bz
	}
	pts := make([]kyber.Point, 0, len(c.commits))
	for _, b := range c.commits {
		p := c.suite.G1().Point()
		_ = p.UnmarshalBinary(b)
		pts = append(pts, p)
	}
	kr := dkg.BLSKeyring{PubPoly: share.NewPubPoly(c.suite.G1(), nil, pts)}
	bz, _ := kr.PubPolyBytes()
	return bz
}

// share of participant i on msg (honest, hence valid)
func (c *vfCrypto) share(i int, msg []byte, tag string) []byte {
	if vf.Symbolic() {
		idx := []byte{0, byte(i)}
		val := vf.Bytes("share."+tag, 2)
		vf.Assume(vf.UFBool("tbls.valid", c.polyConcat(), idx, msg, val))
		vf.Assume(vf.UFBool("kyber.pt.decodes", val))
		return append(idx, val...)
	}
	s, _ := tbls.Sign(c.suite, c.pri.Shares(c.n)[i], msg)
	return s
}

func (c *vfCrypto) expected(msg []byte) []byte {
	return vf.UFBytes("bls.sig", 96, c.polyConcat(), msg)
}

var vfSignRound = "round"

func vfSignedMessage(ev string, sender int, payload interface{}) storage.Message {
	data, _ := json.Marshal(payload)
	_, priv := state_machines.VFKeyPair(sender)
	return storage.Message{ID: "id", DkgRoundID: vfSignRound, Event: ev, Data: data, Signature: ed25519.Sign(priv, data), SenderAddr: state_machines.VFUser(sender)}
}

var vfPerms3 = [][]int{{0, 1, 2}, {0, 2, 1}, {1, 0, 2}, {1, 2, 0}, {2, 0, 1}, {2, 1, 0}}

// VF_NodeSign: n=3 participants, threshold t (param), ntasks explicit messages per batch, two batches.
func VF_NodeSign() {
	n := 3
	t := vf.ParamInt("t")
	ntasks := vf.ParamInt("ntasks")
	vf.Injective("md5")
	vf.Injective("hex")
	vf.Injective("b64")
	cr := vfNewCrypto(n, t)
	if vf.Symbolic() {
		for _, cm := range cr.commits {
			vf.Assume(vf.UFBool("kyber.pt.decodes", cm)) // the commitments of a finished DKG are valid encodings
		}
	}
	path := vfStatePath("sign")
	vfCleanup(path)
	defer vfCleanup(path)
	board := &vfBoard{}
	e, err := vfOpenNode(path, 0, board)
	if err != nil {
		vf.Unreachable("open-node")
		return
	}
	abs := "stage_signing_idle;3;" + strconv.Itoa(t) + ";111;k.fk.fk.f;q;.P."
	_, d := state_machines.VFDump(abs, "round")
	d.Payload.DKGProposalPayload.PubPolyBz = cr.pubPolyBz()
	bz, _ := json.Marshal(d)
	_ = e.fsm.SaveFSM("round", bz)

	// message identifiers: concrete ("b<batch>m<k>") or, with param symids, the ids of the first batch are arbitrary pairwise
	// distinct strings "m"+<any byte> in whatever order the proposer lists them
	ids := map[string][]string{}
	idOf := func(bs string, k int) string {
		if bs == "2" && vf.Param("sameids") != "" {
			bs = "1" // the second batch re-uses the message ids of the first one (with other payloads and file names)
		}
		for len(ids[bs]) <= k {
			j := len(ids[bs])
			id := "b" + bs + "m" + strconv.Itoa(j)
			if vf.Param("symids") != "" && bs == "1" {
				id = "m" + string([]byte{vf.Byte("b" + bs + ".id" + strconv.Itoa(j))})
				for _, bb := range []string{"1", "2"} {
					for _, o := range ids[bb] {
						vf.Assume(o != id)
					}
				}
			}
			ids[bs] = append(ids[bs], id)
		}
		return ids[bs][k]
	}
	fileOf := func(bs string, k int) string {
		if vf.Param("sameids") != "" {
			return "file" + strconv.Itoa(k) + "-of-batch-" + bs
		}
		return "file" + strconv.Itoa(k)
	}
	rid := "round"
	runBatch := func(b int, order []int, lateFrom int, lateBatch string, latePayloads [][]byte) ([][]byte, bool) {
		bs := strconv.Itoa(b)
		batchID := "batch-" + bs
		var payloads [][]byte
		var tasks []requests.SigningTask
		for k := 0; k < ntasks; k++ {
			p := vf.Bytes("b"+bs+".payload"+strconv.Itoa(k), 2)
			payloads = append(payloads, p)
			tasks = append(tasks, requests.SigningTask{MessageID: idOf(bs, k), File: fileOf(bs, k), Payload: p})
		}
		start := requests.SigningBatchProposalStartRequest{BatchID: batchID, ParticipantId: 0, CreatedAt: vf.Time("b" + bs + ".created"), SigningTasks: tasks}
		if err := e.node.ProcessMessage(vfSignedMessage("event_signing_start", 0, start)); err != nil {
			vf.Record("proposal-rejected", err.Error())
			vf.Assert("proposal-accepted:batch"+bs, false)
			return nil, false
		}
		answer := func(i int, batch string, ps [][]byte, tag string) error {
			var signs []requests.PartialSign
			for k := range ps {
				id := idOf(batch[len(batch)-1:], k)
				signs = append(signs, requests.PartialSign{MessageID: id, Sign: cr.share(i, ps[k], tag+"."+strconv.Itoa(i)+"."+strconv.Itoa(k))})
			}
			req := requests.SigningProposalBatchPartialSignRequests{BatchID: batch, ParticipantId: i, PartialSigns: signs, CreatedAt: vf.Time(tag + ".created" + strconv.Itoa(i))}
			return e.node.ProcessMessage(vfSignedMessage("event_signing_partial_sign_received", i, req))
		}
		latePos := -1
		if lateFrom >= 0 {
			latePos = vf.Choose("late.pos", t) // before the first, or between two, of the t answers of this batch
		}
		for k := 0; k < t; k++ {
			if k == latePos {
				// the slow participant's answer to the PREVIOUS batch lands in the middle of this one
				pre := vfTake(e, []string{rid})
				lerr := answer(lateFrom, lateBatch, latePayloads, "late")
				post := vfTake(e, []string{rid})
				vf.Assert("late-answer-noop", vf.And(lerr != nil, vfSame(pre, post, []string{rid})))
			}
			ps := payloads
			omit := vf.Param("omit") != "" && b == 1 && ntasks >= 2 && t < n
			if omit && k == t-1 {
				ps = payloads[:ntasks-1] // the t-th answer covers only some messages of the batch
			}
			pre := vfTake(e, []string{rid})
			if err := answer(order[k], batchID, ps, "b"+bs); err != nil {
				if omit && k == t-1 {
					// one message has only t-1 shares: the t-th answer cannot complete the batch; it must leave no trace, and
					// the next complete answer finishes the batch
					vf.Assert("incomplete-set-noop", vfSame(pre, vfTake(e, []string{rid}), []string{rid}))
					if err2 := answer(order[t], batchID, payloads, "b"+bs+"x"); err2 != nil {
						vf.Record("answer-rejected", err2.Error())
						vf.Assert("honest-answer-accepted:batch"+bs, false)
						return nil, false
					}
					continue
				}
				vf.Record("answer-rejected", err.Error())
				vf.Assert("honest-answer-accepted:batch"+bs, false)
				return nil, false
			}
		}
		// the t-th answer triggered reconstruction and a broadcast; every node (this one too) stores it on receipt
		if len(board.sent) == 0 {
			vf.Assert("reconstruction-broadcast:batch"+bs, false)
			return nil, false
		}
		bc := board.sent[len(board.sent)-1]
		vf.Assert("reconstruction-broadcast:batch"+bs, bc.Event == "signature_reconstructed")
		if err := e.node.ProcessMessage(bc); err != nil {
			vf.Assert("broadcast-accepted:batch"+bs, false)
			return nil, false
		}
		// C07: ends idle with every message of the batch stored; C01/C03: each stored signature is Sig(poly, proposed payload)
		dumpNow, _ := e.fsm.GetFSMDump(&dto.DkgIdDTO{DkgID: rid})
		vf.Assert("ends-idle:batch"+bs, dumpNow != nil && string(dumpNow.State) == "stage_signing_idle")
		stored, _ := e.node.sigService.GetSignaturesByBatchID(&dto.SignaturesByBatchIdDTO{DkgID: rid, BatchID: batchID})
		for k := range payloads {
			id := idOf(bs, k)
			entries := stored[id]
			found := false
			for _, en := range entries {
				if len(en.Signature) > 0 {
					found = true
					vf.Assert("stored-is-recovered", vf.BytesEq(en.Signature, cr.expected(payloads[k])))
					vf.Assert("stored-payload-is-proposed", vf.BytesEq(en.SrcPayload, payloads[k]))
					vf.Assert("stored-entry-labels", en.MessageID == id && en.BatchID == batchID && en.DKGRoundID == rid)
					vf.Assert("stored-file-is-proposed", en.File == fileOf(bs, k))
				} else {
					vf.Assert("proposal-entry-payload-is-proposed", vf.BytesEq(en.SrcPayload, payloads[k]))
					vf.Assert("proposal-entry-file-is-proposed", en.File == fileOf(bs, k))
				}
			}
			vf.Assert("all-batches-stored:batch"+bs, found)
		}
		return payloads, true
	}

	pick := func(name string) []int {
		if vf.Param(name) != "" {
			return vfPerms3[vf.ParamInt(name)]
		}
		return vfPerms3[vf.Choose(name, len(vfPerms3))]
	}
	order := pick("order")
	p1, ok := runBatch(1, order, -1, "", nil)
	if !ok {
		return
	}
	if t < n && vf.Param("tworounds") == "" {
		// the slow participant of batch 1 answers late, while batch 2 is being collected
		order2 := pick("order2")
		_, ok = runBatch(2, order2, order[n-1], "batch-1", p1)
		if !ok {
			return
		}
	}
	if vf.Param("tworounds") != "" {
		// the same node takes part in a second finished round with its own polynomial and a LARGER threshold (t=3)
		cr2 := vfNewCryptoTag(n, 3, "r2.")
		if vf.Symbolic() {
			for _, cm := range cr2.commits {
				vf.Assume(vf.UFBool("kyber.pt.decodes", cm))
			}
		}
		_, d2 := state_machines.VFDump("stage_signing_idle;3;3;111;k.fk.fk.f;q;.P.", "round2")
		d2.Payload.DKGProposalPayload.PubPolyBz = cr2.pubPolyBz()
		bz2, _ := json.Marshal(d2)
		_ = e.fsm.SaveFSM("round2", bz2)
		rid, cr, t = "round2", cr2, 3
		vfSignRound = "round2"
		cr2.activate()
		_, ok = runBatch(3, vfPerms3[0], -1, "", nil)
		vfSignRound = "round"
		if !ok {
			return
		}
	}
	vf.Assert("witness", false)
}
