package node

// Node-level harness scaffolding: a BaseNodeService built from the REAL services (fsmservice, operation and signature
// repositories and services, LevelDBState) over a fake board, a fixed key store and a silent logger.

import (
	"context"
	"time"
	"encoding/json"
	"errors"
	"os"
	"strconv"

	"github.com/lidofinance/dc4bc/client/config"
	"github.com/lidofinance/dc4bc/client/modules/keystore"
	"github.com/lidofinance/dc4bc/client/modules/state"
	oprepo "github.com/lidofinance/dc4bc/client/repositories/operation"
	sigrepo "github.com/lidofinance/dc4bc/client/repositories/signature"
	"github.com/lidofinance/dc4bc/client/services"
	"github.com/lidofinance/dc4bc/client/services/fsmservice"
	"github.com/lidofinance/dc4bc/client/services/operation"
	"github.com/lidofinance/dc4bc/client/services/signature"
	"github.com/lidofinance/dc4bc/fsm/state_machines"
	"github.com/lidofinance/dc4bc/internal/vf"
	"github.com/lidofinance/dc4bc/storage"
)

const vfTopic = "topic"

type vfBoard struct {
	sent []storage.Message
	ctl  *vfCrashCtl
	// failCall = k > 0: the k-th Send call is refused as a whole (nothing of that call is appended); 0 = never
	failCall, calls int
}

func (b *vfBoard) Send(ms ...storage.Message) error {
	vf.Yield()
	b.calls++
	if b.failCall != 0 && b.calls == b.failCall {
		return errors.New("board refused the call")
	}
	if b.ctl != nil {
		defer b.ctl.effect("board send")
	}
	for _, m := range ms {
		m.Offset = uint64(len(b.sent))
		b.sent = append(b.sent, m)
	}
	return nil
}
func (b *vfBoard) GetMessages(offset uint64) ([]storage.Message, error) {
	if offset >= uint64(len(b.sent)) {
		return nil, nil
	}
	return append([]storage.Message{}, b.sent[offset:]...), nil
}
func (b *vfBoard) Close() error                                          { return nil }
func (b *vfBoard) IgnoreMessages(messages []string, useOffset bool) error { return nil }
func (b *vfBoard) UnignoreMessages()                                     {}

type vfKS struct {
	user string
	kp   *keystore.KeyPair
}

func (k *vfKS) PutKeys(username string, keyPair *keystore.KeyPair) error { return nil }
func (k *vfKS) LoadKeys(userName, password string) (*keystore.KeyPair, error) {
	if userName != k.user {
		return nil, errors.New("no key pair found for user")
	}
	return k.kp, nil
}

type vfLog struct{}

func (vfLog) Log(format string, args ...interface{}) {}

// vfCrashCtl counts durable effects (state writes, board sends) and "kills the process" after the k-th one.
type vfCrashCtl struct {
	n     int
	limit int // 0 = never
	log   []string
}

type vfCrash struct{}

func (c *vfCrashCtl) effect(what string) {
	c.n++
	c.log = append(c.log, what)
	if c.limit > 0 && c.n == c.limit {
		c.limit = 0
		panic(vfCrash{})
	}
}

// vfCrashState decorates the node's state store: every write is one durable effect.
type vfCrashState struct {
	state.State
	ctl *vfCrashCtl
}

func (s *vfCrashState) Get(key string) ([]byte, error) {
	vf.Yield()
	return s.State.Get(key)
}
func (s *vfCrashState) GetOrError(key string) ([]byte, error) {
	vf.Yield()
	return s.State.GetOrError(key)
}
func (s *vfCrashState) LoadOffset() (uint64, error) {
	vf.Yield()
	return s.State.LoadOffset()
}
func (s *vfCrashState) Set(key string, value []byte) error {
	vf.Yield()
	err := s.State.Set(key, value)
	s.ctl.effect("set " + key)
	return err
}
func (s *vfCrashState) Delete(key string) error {
	vf.Yield()
	err := s.State.Delete(key)
	s.ctl.effect("delete " + key)
	return err
}
func (s *vfCrashState) SaveOffset(o uint64) error {
	vf.Yield()
	err := s.State.SaveOffset(o)
	s.ctl.effect("offset")
	return err
}

type vfNodeEnv struct {
	ctl    *vfCrashCtl
	base   state.State
	cancel context.CancelFunc
	node   *BaseNodeService
	st     state.State
	board  *vfBoard
	fsm    fsmservice.FSMService
	ops    operation.OperationService
	path   string
	user   string
	idx    int
}

func vfStatePath(tag string) string {
	return os.TempDir() + "/vf_node_" + vf.Param("tag") + "_" + tag
}

// vfOpenNode builds the node of participant idx over the state directory path (re-opening it = restart).
func vfOpenNode(path string, idx int, board *vfBoard) (*vfNodeEnv, error) {
	base, err := state.NewLevelDBState(path, vfTopic)
	if err != nil {
		return nil, err
	}
	return vfStartNode(base, path, idx, board)
}

// vfRestartNode: the process is gone; a new one starts on what the state directory held at that instant. The dead process
// never closed its LevelDB handle, so the directory is copied byte for byte and the new process opens the copy (the executor's
// LevelDB model treats "<dir>#<n>" as such a copy of <dir>).
func vfRestartNode(path string, gen int, idx int, board *vfBoard) (*vfNodeEnv, error) {
	np := path + "#r" + strconv.Itoa(gen)
	if !vf.Symbolic() {
		os.RemoveAll(np)
		if err := vfCopyDir(path, np); err != nil {
			return nil, err
		}
	}
	return vfOpenNode(np, idx, board)
}

func vfCopyDir(from, to string) error {
	if err := os.MkdirAll(to, 0o755); err != nil {
		return err
	}
	ents, err := os.ReadDir(from)
	if err != nil {
		return err
	}
	for _, e := range ents {
		if e.IsDir() {
			continue
		}
		bz, err := os.ReadFile(from + "/" + e.Name())
		if err != nil {
			return err
		}
		if err := os.WriteFile(to+"/"+e.Name(), bz, 0o644); err != nil {
			return err
		}
	}
	return nil
}

// vfStartNode constructs all services afresh over an existing state store (= process start on an existing state dir).
func vfStartNode(base state.State, path string, idx int, board *vfBoard) (*vfNodeEnv, error) {
	user := state_machines.VFUser(idx)
	ctl := &vfCrashCtl{}
	var st state.State = &vfCrashState{State: base, ctl: ctl}
	var err error
	pub, priv := state_machines.VFKeyPair(idx)
	sp := &services.ServiceProvider{}
	sp.SetState(st)
	sp.SetStorage(board)
	sp.SetKeyStore(&vfKS{user: user, kp: &keystore.KeyPair{Pub: pub, Priv: priv}})
	sp.SetLogger(vfLog{})
	opRepo, err := oprepo.NewOperationRepo(st, vfTopic)
	if err != nil {
		return nil, err
	}
	fsmSvc := fsmservice.NewFSMService(st, board, vfTopic)
	opSvc := operation.NewOperationService(opRepo)
	sp.SetFSMService(fsmSvc)
	sp.SetSignatureService(signature.NewSignatureService(sigrepo.NewSignatureRepo(st)))
	sp.SetOperationService(opSvc)
	ctx, cancel := context.WithCancel(context.Background())
	n, err := NewNode(ctx, &config.Config{Username: user, KafkaStorageConfig: &config.KafkaStorageConfig{Topic: vfTopic}}, sp)
	if err != nil {
		return nil, err
	}
	return &vfNodeEnv{ctl: ctl, base: base, cancel: cancel, node: n.(*BaseNodeService), st: st, board: board, fsm: fsmSvc, ops: opSvc, path: path, user: user, idx: idx}, nil
}

// vfSnap: byte-level snapshot of everything durable except the offset.
type vfSnap struct {
	rounds map[string][]byte
	ops    []byte
	del    []byte
	sigs   map[string][]byte
	nsent  int
}

func vfTake(e *vfNodeEnv, roundIDs []string) vfSnap {
	s := vfSnap{rounds: map[string][]byte{}, sigs: map[string][]byte{}, nsent: len(e.board.sent)}
	bz, _ := e.st.Get(vfTopic + "_fsm_state")
	all := map[string][]byte{}
	if len(bz) > 0 {
		_ = json.Unmarshal(bz, &all)
	}
	for _, id := range roundIDs {
		if d, ok := all[id]; ok {
			s.rounds[id] = d
		}
	}
	s.ops, _ = e.st.Get(vfTopic + "_operations")
	s.del, _ = e.st.Get(vfTopic + "_deleted_operations")
	for _, id := range roundIDs {
		s.sigs[id], _ = e.st.Get("signatures_" + id)
	}
	return s
}

// vfSame: the two snapshots are byte-identical (as a solver term).
func vfSame(a, b vfSnap, roundIDs []string) bool {
	conds := []bool{vf.BytesEq(a.ops, b.ops), vf.BytesEq(a.del, b.del), a.nsent == b.nsent}
	for _, id := range roundIDs {
		da, oka := a.rounds[id]
		db, okb := b.rounds[id]
		if oka != okb {
			return false
		}
		if oka {
			conds = append(conds, vf.BytesEq(da, db))
		}
		conds = append(conds, vf.BytesEq(a.sigs[id], b.sigs[id]))
	}
	return vf.And(conds...)
}

// vfSeedRound stores the dump of abstract state abs as round id.
func vfSeedRound(e *vfNodeEnv, id, abs string) *state_machines.FSMDump {
	bz, d := state_machines.VFDump(abs, id)
	if err := e.fsm.SaveFSM(id, bz); err != nil {
		vf.Unreachable("seed-round")
	}
	return d
}

func vfCleanup(paths ...string) {
	for _, p := range paths {
		os.RemoveAll(p)
	}
}

var _ = strconv.Itoa

// vfPollOnce runs the real Poll loop for one tick.
func vfPollOnce(e *vfNodeEnv) (crashed bool) {
	defer func() {
		if r := recover(); r != nil {
			if _, ok := r.(vfCrash); ok {
				crashed = true
				return
			}
			panic(r)
		}
	}()
	if vf.Symbolic() {
		// the modelled ticker fires once, then the (already cancelled) context ends the loop
		e.cancel()
		_ = e.node.Poll()
		return false
	}
	done := make(chan struct{})
	var pv interface{}
	go func() {
		defer func() { pv = recover(); close(done) }()
		_ = e.node.Poll()
	}()
	time.Sleep(1300 * time.Millisecond)
	e.cancel()
	<-done
	if pv != nil {
		panic(pv)
	}
	return false
}
