package node

// C15: only unaltered answers to operations the node issued reach the board, once.

import (
	"crypto/ed25519"
	"encoding/json"
	"strconv"

	"github.com/lidofinance/dc4bc/client/api/dto"
	apireq "github.com/lidofinance/dc4bc/client/api/http_api/requests"
	"github.com/lidofinance/dc4bc/client/types"
	"github.com/lidofinance/dc4bc/fsm/fsm"
	"github.com/lidofinance/dc4bc/fsm/state_machines"
	"github.com/lidofinance/dc4bc/internal/vf"
	"github.com/lidofinance/dc4bc/storage"
)

func vfResultMsgs(name string, k int) []storage.Message {
	var ms []storage.Message
	for i := 0; i < k; i++ {
		is := strconv.Itoa(i)
		ms = append(ms, storage.Message{
			ID: vf.Str(name + is + ".id"), DkgRoundID: vf.Str(name + is + ".round"), Event: vf.Str(name + is + ".event"),
			Data: vf.Bytes(name+is+".data", 1), Signature: vf.Bytes(name+is+".sig", 1),
			SenderAddr: vf.Str(name + is + ".sender"), RecipientAddr: vf.Str(name + is + ".recipient"),
		})
	}
	return ms
}

// VF_C15_Submit: pool with npool pending operations; one arbitrary submitted result.
func VF_C15_Submit() {
	npool := vf.ParamInt("npool")
	vf.Injective("md5")
	vf.Injective("hex")
	vf.Injective("b64")
	path := vfStatePath("c15")
	vfCleanup(path)
	defer vfCleanup(path)
	board := &vfBoard{}
	e, err := vfOpenNode(path, 0, board)
	if err != nil {
		vf.Unreachable("open-node")
		return
	}
	// pending operations issued by the node itself (real NewOperation: id = md5(round, payload))
	var pool []*types.Operation
	for i := 0; i < npool; i++ {
		is := strconv.Itoa(i)
		op := types.NewOperation("round", vf.Bytes("pool"+is+".payload", 1), fsm.State(vf.Str("pool"+is+".type")))
		if err := e.ops.PutOperation(op); err != nil {
			vf.Stop() // identical operations: nothing new to learn
		}
		pool = append(pool, op)
	}
	// the submitted result: each of ID / Type / Payload is either copied from a pool entry (any entry, independently per
	// field) or a fresh value different from every pool entry; all other fields are arbitrary
	subID, subType := vf.Str("sub.id"), vf.Str("sub.type")
	subPayload := vf.Bytes("sub.payload", 1)
	for _, op := range pool {
		vf.Assume(vf.And(subID != op.ID, subType != string(op.Type), !vf.BytesEq(subPayload, op.Payload)))
	}
	if c := vf.Choose("sub.id.from", npool+1); c < npool {
		subID = pool[c].ID
	}
	if c := vf.Choose("sub.type.from", npool+1); c < npool {
		subType = string(pool[c].Type)
	}
	if c := vf.Choose("sub.payload.from", npool+1); c < npool {
		subPayload = append([]byte{}, pool[c].Payload...)
	}
	sub := &dto.OperationDTO{
		ID: subID, Type: subType, Payload: subPayload,
		ResultMsgs: vfResultMsgs("sub.msg", vf.Choose("sub.nmsgs", 3)), CreatedAt: vf.Time("sub.created"),
		DkgID: vf.Str("sub.round"), To: vf.Str("sub.to"), Event: fsm.Event(vf.Str("sub.event")), ExtraData: vf.Bytes("sub.extra", 1),
	}
	// reinit results (operation_processed_successfully) touch the round state instead of the board: separate obligation
	vf.Assume(sub.Event != types.OperationProcessed)
	wantMsgs := append([]storage.Message{}, sub.ResultMsgs...)

	// the board may refuse one Send call of the first submission (0 = healthy, k = the k-th call is refused as a whole)
	board.failCall = vf.Choose("board.refuses-call", 3)
	perr := e.node.ProcessOperation(sub)
	refused := board.failCall != 0 && board.calls >= board.failCall
	board.failCall = 0
	sent := board.sent

	// which pool entry (if any) does the submission answer?
	match := -1
	for i, op := range pool {
		if vf.Decide(vf.And(op.ID == sub.ID, string(op.Type) == sub.Type, vf.BytesEq(op.Payload, sub.Payload))) {
			match = i
		}
	}
	if len(sent) > 0 {
		vf.Assert("send-needs-pending-equal", match >= 0)
		vf.Assert("send-needs-result", sub.Event != "")
		vf.Assert("sent-is-result-signed-by-node:count", len(sent) == len(wantMsgs))
		pub, _ := state_machines.VFKeyPair(0)
		for i := 0; i < len(sent) && i < len(wantMsgs); i++ {
			m, w := sent[i], wantMsgs[i]
			vf.Assert("sent-is-result-signed-by-node:fields", vf.And(m.Event == w.Event, m.DkgRoundID == w.DkgRoundID,
				m.RecipientAddr == w.RecipientAddr, vf.BytesEq(m.Data, w.Data)))
			vf.Assert("sent-is-result-signed-by-node:sender", m.SenderAddr == e.user)
			vf.Assert("sent-is-result-signed-by-node:signature", ed25519.Verify(pub, m.Data, m.Signature))
		}
		vf.Assert("send-implies-success", perr == nil)
	} else if perr == nil {
		// a result without messages: nothing to post, but it must still answer a pending, unaltered operation
		vf.Assert("send-needs-pending-equal", match >= 0)
		vf.Assert("sent-is-result-signed-by-node:count", len(wantMsgs) == 0)
	}
	if perr == nil {
		// retired: no longer pending, cannot be answered again, never pending again
		pending, _ := e.ops.GetOperations()
		_, still := pending[sub.ID]
		vf.Assert("retire-once:not-pending", !still)
		n0 := len(board.sent)
		err2 := e.node.ProcessOperation(sub)
		vf.Assert("retire-once:second-submission-fails", err2 != nil)
		vf.Assert("retire-once:second-submission-sends-nothing", len(board.sent) == n0)
		if match >= 0 {
			_ = e.ops.PutOperation(pool[match])
			pending, _ = e.ops.GetOperations()
			_, again := pending[sub.ID]
			vf.Assert("tombstone-filters", !again)
			// the same board message handled again re-issues the identical operation: it must stay retired
			n1 := len(board.sent)
			err3 := e.node.ProcessOperation(sub)
			vf.Assert("retire-once:after-reissue-fails", err3 != nil)
			vf.Assert("retire-once:after-reissue-sends-nothing", len(board.sent) == n1)
		}
	} else {
		vf.Assert("rejected-sends-nothing", len(sent) == 0)
		pending, _ := e.ops.GetOperations()
		vf.Assert("rejected-keeps-pool", len(pending) == len(pool))
		if refused && match >= 0 {
			// "once": a submission the board refused is submitted again on a healthy board - the result reaches the board
			// exactly once in total and the operation is retired
			err4 := e.node.ProcessOperation(sub)
			vf.Assert("refused-then-resubmitted:succeeds", err4 == nil)
			vf.Assert("refused-then-resubmitted:once", len(board.sent) == len(wantMsgs))
		}
	}
	vf.Assert("witness", false)
}

// VF_C15_RoundTrip: an operation survives the JSON file round trip to the airgapped machine and back to the API form.
func VF_C15_RoundTrip() {
	op := types.Operation{
		ID: vf.Str("op.id"), Type: types.OperationType(vf.Str("op.type")), Payload: vf.Bytes("op.payload", 2),
		ResultMsgs: vfResultMsgs("op.msg", vf.Choose("op.nmsgs", 3)), CreatedAt: vf.Time("op.created"),
		DKGIdentifier: vf.Str("op.round"), To: vf.Str("op.to"), Event: fsm.Event(vf.Str("op.event")), ExtraData: vf.Bytes("op.extra", 1),
	}
	for i := range op.ResultMsgs {
		op.ResultMsgs[i].Offset = vf.Uint64("op.msg" + strconv.Itoa(i) + ".offset")
	}
	bz, err := json.Marshal(op)
	vf.Assert("op-json-roundtrip:marshal", err == nil)
	var back types.Operation
	err = json.Unmarshal(bz, &back)
	vf.Assert("op-json-roundtrip:unmarshal", err == nil)
	vf.Assert("op-json-roundtrip:operation", vf.Eq(op, back))
	var form apireq.OperationForm
	err = json.Unmarshal(bz, &form)
	vf.Assert("op-json-roundtrip:form-unmarshal", err == nil)
	vf.Assert("op-json-roundtrip:form-fields", vf.And(form.ID == op.ID, form.Type == string(op.Type), vf.BytesEq(form.Payload, op.Payload),
		vf.Eq(form.ResultMsgs, op.ResultMsgs), form.CreatedAt.Equal(op.CreatedAt), form.DkgID == op.DKGIdentifier, form.To == op.To,
		form.Event == op.Event, vf.BytesEq(form.ExtraData, op.ExtraData)))
	vf.Assert("witness", false)
}
