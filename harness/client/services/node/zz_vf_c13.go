package node

// C13: a hot node killed at any instant resumes without losing messages or operations.
// The crash run (kill after the k-th durable effect, restart on the same state store, poll again) must end in the same
// public state as the crash-free run.

import (
	"crypto/ed25519"
	"encoding/json"

	"github.com/lidofinance/dc4bc/client/api/dto"
	"github.com/lidofinance/dc4bc/client/types"
	"github.com/lidofinance/dc4bc/fsm/fsm"
	"github.com/lidofinance/dc4bc/fsm/state_machines"
	"github.com/lidofinance/dc4bc/internal/vf"
	"github.com/lidofinance/dc4bc/storage"
)

type vfOpView struct {
	Type    types.OperationType
	Payload []byte
	Round   string
}

type vfPublic struct {
	Round  state_machines.VFProjection
	HasRnd bool
	Ops    map[string]vfOpView
	Sigs   []byte
	Offset uint64
}

func vfPublicState(e *vfNodeEnv, n int) vfPublic {
	var p vfPublic
	bz, _ := e.base.Get(vfTopic + "_fsm_state")
	all := map[string][]byte{}
	if len(bz) > 0 {
		_ = json.Unmarshal(bz, &all)
	}
	if d, ok := all["round"]; ok {
		p.Round, p.HasRnd = state_machines.VFProject(d, n)
	}
	ops, _ := e.ops.GetOperations()
	p.Ops = map[string]vfOpView{}
	for id, o := range ops {
		p.Ops[id] = vfOpView{Type: o.Type, Payload: o.Payload, Round: o.DKGIdentifier}
	}
	p.Sigs, _ = e.base.Get("signatures_round")
	p.Offset, _ = e.base.LoadOffset()
	return p
}

// vfGenuineMessage: a message of event ev for round "round", payload with symbolic fields, genuinely signed by sender.
func vfGenuineMessage(ev string, sender int) storage.Message {
	args := state_machines.VFRequest(ev, 0)
	var data []byte
	if len(args) == 1 {
		data, _ = json.Marshal(args[0])
	}
	_, priv := state_machines.VFKeyPair(sender)
	return storage.Message{ID: "id-" + ev, DkgRoundID: "round", Event: ev, Data: data,
		Signature: ed25519.Sign(priv, data), SenderAddr: state_machines.VFUser(sender)}
}

// VF_C13_Crash: params abs, event. One pending operation is in the pool before; one message is on the board.
func VF_C13_Crash() {
	abs := vf.Param("abs")
	ev := vf.Param("event")
	n := state_machines.VFAbsN(abs)
	vf.Injective("md5")
	vf.Injective("hex")
	vf.Injective("b64")
	dump, _ := state_machines.VFDump(abs, "round")
	msg := vfGenuineMessage(ev, 1)
	pending := types.NewOperation("round", []byte("earlier-request"), "state_earlier")

	var refLog []string
	run := func(tag string, crashAfter int, restart bool) (vfPublic, int, bool) {
		path := vfStatePath(tag)
		vfCleanup(path)
		defer vfCleanup(path)
		board := &vfBoard{}
		e, err := vfOpenNode(path, 0, board)
		if err != nil {
			vf.Unreachable("open-node")
			return vfPublic{}, 0, false
		}
		_ = e.fsm.SaveFSM("round", dump)
		_ = e.ops.PutOperation(pending)
		board.sent = append(board.sent, msg) // offset 0
		board.ctl = e.ctl
		base := e.ctl.n
		if crashAfter > 0 {
			e.ctl.limit = base + crashAfter
		}
		crashed := vfPollOnce(e)
		effects := e.ctl.n - base
		if !restart {
			refLog = append([]string{}, e.ctl.log[base:]...)
		}
		if crashed || restart {
			// the process is gone: start again on the same state store (fresh services, same durable content)
			e2, err := vfRestartNode(path, 1, 0, board)
			defer vfCleanup(path + "#r1")
			if err != nil {
				vf.Unreachable("restart")
				return vfPublic{}, 0, false
			}
			board.ctl = e2.ctl
			vfPollOnce(e2)
			return vfPublicState(e2, n), effects, crashed
		}
		return vfPublicState(e, n), effects, crashed
	}

	ref, effects, _ := run("ref", 0, false)
	k := vf.Choose("crash-after", effects+1) // 0 = clean stop/start at the message boundary
	got, _, crashed := run("crash", k, true)
	if k > 0 && !crashed {
		vf.Unreachable("crash-point-not-reached")
		return
	}
	// the label names the durable effect after which the process died ("clean" = stop/start at a message boundary)
	at := "clean"
	if k > 0 && k-1 < len(refLog) {
		at = "after " + refLog[k-1]
		if k < len(refLog) {
			at += " before " + refLog[k]
		}
	}
	vf.Assert("offset-after-handling@"+at, got.Offset == ref.Offset)
	vf.Assert("crash-restart-equal:round@"+at, vf.And(got.HasRnd == ref.HasRnd, vf.Eq(got.Round, ref.Round)))
	vf.Assert("ops-survive-restart@"+at, vf.Eq(got.Ops, ref.Ops))
	vf.Assert("crash-restart-equal:signatures@"+at, vf.BytesEq(got.Sigs, ref.Sigs))
	vf.Record("crash", k, effects)
	vf.Assert("witness", false)
}

// VF_C13_Api: the process dies while (or right after) serving an API request that answers a pending operation. After the
// restart: an operation that was pending and not answered is still offered; an operation the node reports as retired has
// its answer on the board (never "retired but nothing sent"); and once the request has returned successfully its effect
// survives ANY later stop, also one that happens before the next board message is handled (crash-after = 0).
func VF_C13_Api() {
	vf.Injective("md5")
	vf.Injective("hex")
	vf.Injective("b64")
	other := types.NewOperation("round", []byte("another-request"), "state_other")
	answered := types.NewOperation("round", vf.Bytes("pending.payload", 1), fsm.State(vf.Str("pending.type")))
	nmsgs := 1 + vf.Choose("result.nmsgs", 2)
	reanswer := true
	run := func(tag string, crashAfter int) (pending map[string]bool, sent int, crashed bool, effects int, log []string) {
		path := vfStatePath(tag)
		vfCleanup(path)
		defer vfCleanup(path)
		defer vfCleanup(path + "#r1")
		board := &vfBoard{}
		e, err := vfOpenNode(path, 0, board)
		if err != nil {
			vf.Unreachable("open-node")
			return nil, 0, false, 0, nil
		}
		if e.ops.PutOperation(other) != nil || e.ops.PutOperation(answered) != nil {
			vf.Stop()
		}
		board.ctl = e.ctl
		base := e.ctl.n
		if crashAfter > 0 {
			e.ctl.limit = base + crashAfter
		}
		sub := &dto.OperationDTO{ID: answered.ID, Type: string(answered.Type), Payload: append([]byte{}, answered.Payload...),
			ResultMsgs: vfResultMsgs("result.msg", nmsgs), CreatedAt: answered.CreatedAt, DkgID: "round",
			Event: fsm.Event("event_result")}
		func() {
			defer func() {
				if r := recover(); r != nil {
					if _, ok := r.(vfCrash); ok {
						crashed = true
						return
					}
					panic(r)
				}
			}()
			if err := e.node.ProcessOperation(sub); err != nil {
				vf.Unreachable("genuine-answer-rejected")
			}
		}()
		effects = e.ctl.n - base
		log = append([]string{}, e.ctl.log[base:]...)
		// the process stops here (killed mid-request, or stopped any time after the request returned)
		e2, err := vfRestartNode(path, 1, 0, board)
		if err != nil {
			vf.Unreachable("restart")
			return nil, 0, false, 0, nil
		}
		ops, _ := e2.ops.GetOperations()
		pending = map[string]bool{}
		for id := range ops {
			pending[id] = true
		}
		sent = len(board.sent)
		if pending[answered.ID] {
			// the operation is offered again: the operator answers it again; that must work and retire it for good
			// ("driven to the same outcome as without the crash, with no manual state reset")
			sub2 := &dto.OperationDTO{ID: answered.ID, Type: string(answered.Type), Payload: append([]byte{}, answered.Payload...),
				ResultMsgs: vfResultMsgs("result.msg", nmsgs), CreatedAt: answered.CreatedAt, DkgID: "round",
				Event: fsm.Event("event_result")}
			rerr := e2.node.ProcessOperation(sub2)
			ops2, _ := e2.ops.GetOperations()
			_, still := ops2[answered.ID]
			reanswer = rerr == nil && !still
		} else {
			reanswer = true
		}
		return pending, sent, crashed, effects, log
	}
	_, _, _, effects, refLog := run("ref", 0)
	k := vf.Choose("crash-after", effects+1) // 0 = the request returned; the process stops before anything else happens
	pending, sent, crashed, _, _ := run("crash", k)
	if k > 0 && !crashed {
		vf.Unreachable("crash-point-not-reached")
		return
	}
	at := "returned"
	if k > 0 && k-1 < len(refLog) {
		at = "after " + refLog[k-1]
		if k < len(refLog) {
			at += " before " + refLog[k]
		}
	}
	vf.Assert("api:unanswered-op-survives@"+at, pending[other.ID])
	vf.Assert("api:retired-implies-sent@"+at, pending[answered.ID] || sent == nmsgs)
	vf.Assert("api:reoffered-op-can-be-answered@"+at, reanswer)
	if k == 0 {
		vf.Assert("api:answered-stays-retired@"+at, !pending[answered.ID] && sent == nmsgs)
	}
	vf.Record("crash", k, effects)
	vf.Assert("witness", false)
}
