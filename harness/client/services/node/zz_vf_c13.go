package node

// C13: a hot node killed at any instant resumes without losing messages or operations.
// The crash run (kill after the k-th durable effect, restart on the same state store, poll again) must end in the same
// public state as the crash-free run.

import (
	"crypto/ed25519"
	"encoding/json"

	"github.com/lidofinance/dc4bc/client/types"
	"github.com/lidofinance/dc4bc/fsm/state_machines"
	"github.com/lidofinance/dc4bc/internal/vf"
	"github.com/lidofinance/dc4bc/storage"
)

type vfOpView struct {
	Type    types.OperationType
	Payload []byte
	Round   string
}

type vfPublic struct {
	Round  state_machines.VFProjection
	HasRnd bool
	Ops    map[string]vfOpView
	Sigs   []byte
	Offset uint64
}

func vfPublicState(e *vfNodeEnv, n int) vfPublic {
	var p vfPublic
	bz, _ := e.base.Get(vfTopic + "_fsm_state")
	all := map[string][]byte{}
	if len(bz) > 0 {
		_ = json.Unmarshal(bz, &all)
	}
	if d, ok := all["round"]; ok {
		p.Round, p.HasRnd = state_machines.VFProject(d, n)
	}
	ops, _ := e.ops.GetOperations()
	p.Ops = map[string]vfOpView{}
	for id, o := range ops {
		p.Ops[id] = vfOpView{Type: o.Type, Payload: o.Payload, Round: o.DKGIdentifier}
	}
	p.Sigs, _ = e.base.Get("signatures_round")
	p.Offset, _ = e.base.LoadOffset()
	return p
}

// vfGenuineMessage: a message of event ev for round "round", payload with symbolic fields, genuinely signed by sender.
func vfGenuineMessage(ev string, sender int) storage.Message {
	args := state_machines.VFRequest(ev, 0)
	var data []byte
	if len(args) == 1 {
		data, _ = json.Marshal(args[0])
	}
	_, priv := state_machines.VFKeyPair(sender)
	return storage.Message{ID: "id-" + ev, DkgRoundID: "round", Event: ev, Data: data,
		Signature: ed25519.Sign(priv, data), SenderAddr: state_machines.VFUser(sender)}
}

// VF_C13_Crash: params abs, event. One pending operation is in the pool before; one message is on the board.
func VF_C13_Crash() {
	abs := vf.Param("abs")
	ev := vf.Param("event")
	n := state_machines.VFAbsN(abs)
	vf.Injective("md5")
	vf.Injective("hex")
	vf.Injective("b64")
	dump, _ := state_machines.VFDump(abs, "round")
	msg := vfGenuineMessage(ev, 1)
	pending := types.NewOperation("round", []byte("earlier-request"), "state_earlier")

	var refLog []string
	run := func(tag string, crashAfter int, restart bool) (vfPublic, int, bool) {
		path := vfStatePath(tag)
		vfCleanup(path)
		defer vfCleanup(path)
		board := &vfBoard{}
		e, err := vfOpenNode(path, 0, board)
		if err != nil {
			vf.Unreachable("open-node")
			return vfPublic{}, 0, false
		}
		_ = e.fsm.SaveFSM("round", dump)
		_ = e.ops.PutOperation(pending)
		board.sent = append(board.sent, msg) // offset 0
		board.ctl = e.ctl
		base := e.ctl.n
		if crashAfter > 0 {
			e.ctl.limit = base + crashAfter
		}
		crashed := vfPollOnce(e)
		effects := e.ctl.n - base
		if !restart {
			refLog = append([]string{}, e.ctl.log[base:]...)
		}
		if crashed || restart {
			// the process is gone: start again on the same state store (fresh services, same durable content)
			e2, err := vfStartNode(e.base, path, 0, board)
			if err != nil {
				vf.Unreachable("restart")
				return vfPublic{}, 0, false
			}
			board.ctl = e2.ctl
			vfPollOnce(e2)
			return vfPublicState(e2, n), effects, crashed
		}
		return vfPublicState(e, n), effects, crashed
	}

	ref, effects, _ := run("ref", 0, false)
	k := vf.Choose("crash-after", effects+1) // 0 = clean stop/start at the message boundary
	got, _, crashed := run("crash", k, true)
	if k > 0 && !crashed {
		vf.Unreachable("crash-point-not-reached")
		return
	}
	// the label names the durable effect after which the process died ("clean" = stop/start at a message boundary)
	at := "clean"
	if k > 0 && k-1 < len(refLog) {
		at = "after " + refLog[k-1]
		if k < len(refLog) {
			at += " before " + refLog[k]
		}
	}
	vf.Assert("offset-after-handling@"+at, got.Offset == ref.Offset)
	vf.Assert("crash-restart-equal:round@"+at, vf.And(got.HasRnd == ref.HasRnd, vf.Eq(got.Round, ref.Round)))
	vf.Assert("ops-survive-restart@"+at, vf.Eq(got.Ops, ref.Ops))
	vf.Assert("crash-restart-equal:signatures@"+at, vf.BytesEq(got.Sigs, ref.Sigs))
	vf.Record("crash", k, effects)
	vf.Assert("witness", false)
}
