package node

// C20 (hot-node half): reinitialising a node from a dump of the board brings it to the state of a node that followed
// that board live: same phase, participants, threshold, statuses and contributions, and the reinit operation carries
// exactly the operations the live node produced. Message ids in the dump: all empty (what a Kafka board and the airgapped
// machine produce) or pairwise distinct (what the file board produces).

import (
	"crypto/ed25519"
	"encoding/json"
	"strconv"
	"time"

	"github.com/lidofinance/dc4bc/client/types"
	"github.com/lidofinance/dc4bc/fsm/state_machines"
	"github.com/lidofinance/dc4bc/fsm/types/requests"
	"github.com/lidofinance/dc4bc/internal/vf"
	"github.com/lidofinance/dc4bc/storage"
)

// VF_C20_Replay: params ids ("empty" | "distinct"), len (how many messages of the log: 1..5).
func VF_C20_Replay() {
	n := 2
	vf.Injective("md5")
	vf.Injective("hex")
	vf.Injective("b64")
	var parts []*requests.SignatureProposalParticipantsEntry
	var reParts []types.Participant
	for i := 0; i < n; i++ {
		pub, _ := state_machines.VFKeyPair(i)
		dk := []byte("dkg-pub-key-" + strconv.Itoa(i))
		parts = append(parts, &requests.SignatureProposalParticipantsEntry{Username: state_machines.VFUser(i), PubKey: pub, DkgPubKey: dk})
		reParts = append(reParts, types.Participant{DKGPubKey: dk, OldCommPubKey: pub, NewCommPubKey: pub, Name: state_machines.VFUser(i)})
	}
	// "for timestamps within the confirmation deadlines": the log was written within the hour before the nodes run, and
	// the run itself takes at most an hour (engine param clock_window_s)
	start := vf.Now()
	t0 := vf.Time("log.t0")
	vf.Assume(t0.Before(start) && start.Sub(t0) < time.Hour)
	distinct := vf.Param("ids") == "distinct"
	mk := func(k int, ev string, sender int, payload interface{}) storage.Message {
		data, _ := json.Marshal(payload)
		_, priv := state_machines.VFKeyPair(sender)
		id := ""
		if distinct {
			id = "id" + strconv.Itoa(k)
		}
		return storage.Message{ID: id, DkgRoundID: "round", Offset: uint64(k), Event: ev, Data: data,
			Signature: ed25519.Sign(priv, data), SenderAddr: state_machines.VFUser(sender)}
	}
	at := func(k int) time.Time { return t0.Add(time.Duration(k) * time.Second) }
	full := []storage.Message{
		mk(0, "event_sig_proposal_init", 0, requests.SignatureProposalParticipantsListRequest{Participants: parts, SigningThreshold: 2, CreatedAt: at(0)}),
		mk(1, "event_sig_proposal_confirm_by_participant", 0, requests.SignatureProposalParticipantRequest{ParticipantId: 0, CreatedAt: at(1)}),
		mk(2, "event_sig_proposal_confirm_by_participant", 1, requests.SignatureProposalParticipantRequest{ParticipantId: 1, CreatedAt: at(2)}),
		mk(3, "event_dkg_commit_confirm_received", 1, requests.DKGProposalCommitConfirmationRequest{ParticipantId: 1, Commit: vf.Bytes("log.commit1", 2), CreatedAt: at(3)}),
		mk(4, "event_dkg_commit_confirm_received", 0, requests.DKGProposalCommitConfirmationRequest{ParticipantId: 0, Commit: vf.Bytes("log.commit0", 2), CreatedAt: at(4)}),
	}
	log := full[:vf.ParamInt("len")]

	open := func(tag string) *vfNodeEnv {
		path := vfStatePath(tag)
		vfCleanup(path)
		e, err := vfOpenNode(path, 0, &vfBoard{})
		if err != nil {
			vf.Unreachable("open-node")
			return nil
		}
		return e
	}
	// node A followed the board live
	a := open("live")
	if a == nil {
		return
	}
	defer vfCleanup(a.path)
	for k, m := range log {
		if err := a.node.ProcessMessage(m); err != nil {
			vf.Record("live-error", strconv.Itoa(k), err.Error())
			vf.Assert("log-is-accepted-live", false)
		}
	}
	// node B is reinitialised from the dump
	b := open("reinit")
	if b == nil {
		return
	}
	defer vfCleanup(b.path)
	reBz, _ := json.Marshal(types.ReDKG{DKGID: "round", Threshold: 2, Participants: reParts, Messages: log})
	rerr := b.node.ProcessMessage(storage.Message{ID: "reinit", DkgRoundID: "round", Event: "reinit_dkg", Data: reBz, SenderAddr: state_machines.VFUser(0)})
	vf.Assert("reinit-accepted", rerr == nil)
	pa, pb := vfPublicState(a, n), vfPublicState(b, n)
	if vf.Param("debug") != "" {
		vf.Record("live", pa.Round.State, pa.Round.Sig, pa.Round.Dkg, len(pa.Ops))
		vf.Record("reinit", pb.Round.State, pb.Round.Sig, pb.Round.Dkg, len(pb.Ops))
	}
	vf.Assert("reinit-state-equals-live:round", vf.And(pa.HasRnd == pb.HasRnd, vf.Eq(pa.Round, pb.Round)))
	// the reinit operation hands the airgapped machine exactly the operations the live node produced, in order
	var live []vfOpView
	for _, o := range pa.Ops {
		live = append(live, o)
	}
	found := false
	for _, o := range pb.Ops {
		if string(o.Type) == string(types.ReinitDKG) {
			found = true
			var inner []*types.Operation
			_ = json.Unmarshal(o.Payload, &inner)
			vf.Assert("reinit-operation-carries-live-operations:count", len(inner) == len(live))
			for _, io := range inner {
				match := false
				for _, lo := range live {
					if string(io.Type) == string(lo.Type) && vf.Decide(vf.BytesEq(io.Payload, lo.Payload)) {
						match = true
					}
				}
				vf.Assert("reinit-operation-carries-live-operations:each", match)
			}
		}
	}
	vf.Assert("reinit-operation-present", found)
	vf.Assert("witness", false)
}
