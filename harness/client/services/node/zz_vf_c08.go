package node

// C08: the state a node holds for a round is a function of the board log only: independent clocks (and, in permute
// mode, every Go map iteration order inside message handling) give the same public state, operations and board output.

import (
	"github.com/lidofinance/dc4bc/client/types"
	"github.com/lidofinance/dc4bc/fsm/fsm"
	"github.com/lidofinance/dc4bc/fsm/state_machines"
	"github.com/lidofinance/dc4bc/internal/vf"
	"github.com/lidofinance/dc4bc/storage"
)

// VF_C08_Determinism: params abs, event, permute ("1": node B handles the message under every map iteration order).
func VF_C08_Determinism() {
	abs := vf.Param("abs")
	ev := vf.Param("event")
	n := state_machines.VFAbsN(abs)
	vf.Injective("md5")
	vf.Injective("hex")
	vf.Injective("b64")
	dump, _ := state_machines.VFDump(abs, "round")
	msg := vfGenuineMessage(ev, 1)
	run := func(tag string, permute bool) (vfPublic, error, int) {
		path := vfStatePath(tag)
		vfCleanup(path)
		defer vfCleanup(path)
		board := &vfBoard{}
		e, err := vfOpenNode(path, 0, board)
		if err != nil {
			vf.Unreachable("open-node")
			return vfPublic{}, nil, 0
		}
		_ = e.fsm.SaveFSM("round", dump)
		if permute {
			vf.Permute(true)
		}
		perr := e.node.ProcessMessage(msg)
		if permute {
			vf.Permute(false)
		}
		return vfPublicState(e, n), perr, len(board.sent)
	}
	a, ea, sa := run("a", false)
	b, eb, sb := run("b", vf.Param("permute") == "1")
	label := "clock-free"
	if vf.Param("permute") == "1" {
		label = "maporder-free"
	}
	vf.Assert(label+":verdict", (ea == nil) == (eb == nil))
	vf.Assert(label+":round", vf.And(a.HasRnd == b.HasRnd, vf.Eq(a.Round, b.Round)))
	vf.Assert(label+":operations", vf.Eq(a.Ops, b.Ops))
	vf.Assert(label+":signatures", vf.BytesEq(a.Sigs, b.Sigs))
	vf.Assert(label+":board", sa == sb)
	vf.Assert("witness", false)
}

// VF_C08_Interleave: params abs, event. Node A has followed a board on which ANOTHER round left something behind in every
// store the rounds share (a pending operation and an answered one, both with arbitrary payloads, made by the real
// NewOperation/PutOperation/DeleteOperation; its own dump and signatures); node B has seen only this round. The same
// message for this round must give the same verdict, the same public round state, the same operations of this round,
// the same signatures and the same board output on both, and must leave what the other round left behind untouched.
func VF_C08_Interleave() {
	abs := vf.Param("abs")
	ev := vf.Param("event")
	n := state_machines.VFAbsN(abs)
	vf.Injective("md5")
	vf.Injective("hex")
	vf.Injective("b64")
	dump, _ := state_machines.VFDump(abs, "round")
	otherDump, _ := state_machines.VFDump(abs, "other")
	msg := vfGenuineMessage(ev, 1)
	// what the message makes this round's node put into the shared pool (learned from a dry run on a third node): the other
	// round's leftovers are either arbitrary opaque bytes or byte-identical to one of these (an invitation to the same
	// participants, the same batch of files, ...). The second form is what a native replay can reproduce.
	var likely [][]byte
	{
		path := vfStatePath("dry")
		vfCleanup(path)
		if e, err := vfOpenNode(path, 0, &vfBoard{}); err == nil {
			_ = e.fsm.SaveFSM("round", dump)
			_ = e.node.ProcessMessage(msg)
			ops, _ := e.ops.GetOperations()
			for _, o := range ops {
				likely = append(likely, o.Payload)
			}
		}
		vfCleanup(path)
	}
	leftover := func(which string) []byte {
		if k := vf.Choose("other."+which+".payload-kind", len(likely)+1); k > 0 {
			return likely[k-1]
		}
		return vf.OpaqueBytes("other." + which + ".payload")
	}
	run := func(tag string, interleaved bool) (vfPublic, error, int, bool) {
		path := vfStatePath(tag)
		vfCleanup(path)
		defer vfCleanup(path)
		board := &vfBoard{}
		e, err := vfOpenNode(path, 0, board)
		if err != nil {
			vf.Unreachable("open-node")
			return vfPublic{}, nil, 0, false
		}
		_ = e.fsm.SaveFSM("round", dump)
		var keep vfSnap
		othersBefore := 1
		if interleaved {
			_ = e.fsm.SaveFSM("other", otherDump)
			pend := types.NewOperation("other", leftover("pending"), fsm.State(vf.Str("other.pending.type")))
			done := types.NewOperation("other", leftover("answered"), fsm.State(vf.Str("other.answered.type")))
			if e.ops.PutOperation(pend) != nil || e.ops.PutOperation(done) != nil || e.ops.DeleteOperation(done) != nil {
				vf.Stop() // the two leftovers coincide: not a second operation
			}
			// ... and this very process has just handled the other round's message with the SAME message id, event, payload
			// and signature (a board may carry the same id in two rounds; whatever the node remembers about it in memory
			// must not matter for this round)
			if vf.Param("prior") != "" {
				_ = e.node.ProcessMessage(storage.Message{ID: msg.ID, DkgRoundID: "other", Event: msg.Event, Data: msg.Data,
					Signature: msg.Signature, SenderAddr: msg.SenderAddr})
			}
			keep = vfTake(e, []string{"other"})
			othersBefore = 0
			if ops, err := e.ops.GetOperations(); err == nil {
				for _, o := range ops {
					if o.DKGIdentifier == "other" {
						othersBefore++
					}
				}
			}
		}
		perr := e.node.ProcessMessage(msg)
		untouched := true
		if interleaved {
			after := vfTake(e, []string{"other"})
			untouched = vf.And(vf.BytesEq(keep.rounds["other"], after.rounds["other"]), vf.BytesEq(keep.sigs["other"], after.sigs["other"]))
			ops, _ := e.ops.GetOperations()
			cnt := 0
			for _, o := range ops {
				if o.DKGIdentifier == "other" {
					cnt++
				}
			}
			untouched = untouched && cnt == othersBefore
		}
		p := vfPublicState(e, n)
		for id, o := range p.Ops {
			if o.Round != "round" {
				delete(p.Ops, id)
			}
		}
		return p, perr, len(board.sent), untouched
	}
	a, ea, sa, untouched := run("a", true)
	b, eb, sb, _ := run("b", false)
	if ea != nil {
		vf.Record("interleaved-error", ea.Error())
	}
	if eb != nil {
		vf.Record("alone-error", eb.Error())
	}
	vf.Assert("interleaved-round-changes-nothing:verdict", (ea == nil) == (eb == nil))
	vf.Assert("interleaved-round-changes-nothing:round", vf.And(a.HasRnd == b.HasRnd, vf.Eq(a.Round, b.Round)))
	vf.Assert("interleaved-round-changes-nothing:operations", vf.Eq(a.Ops, b.Ops))
	vf.Assert("interleaved-round-changes-nothing:signatures", vf.BytesEq(a.Sigs, b.Sigs))
	vf.Assert("interleaved-round-changes-nothing:board", sa == sb)
	vf.Assert("interleaved-round-changes-nothing:other-round-untouched", untouched)
	vf.Assert("witness", false)
}
