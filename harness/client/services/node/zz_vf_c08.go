package node

// C08: the state a node holds for a round is a function of the board log only: independent clocks (and, in permute
// mode, every Go map iteration order inside message handling) give the same public state, operations and board output.

import (
	"github.com/lidofinance/dc4bc/fsm/state_machines"
	"github.com/lidofinance/dc4bc/internal/vf"
)

// VF_C08_Determinism: params abs, event, permute ("1": node B handles the message under every map iteration order).
func VF_C08_Determinism() {
	abs := vf.Param("abs")
	ev := vf.Param("event")
	n := state_machines.VFAbsN(abs)
	vf.Injective("md5")
	vf.Injective("hex")
	vf.Injective("b64")
	dump, _ := state_machines.VFDump(abs, "round")
	msg := vfGenuineMessage(ev, 1)
	run := func(tag string, permute bool) (vfPublic, error, int) {
		path := vfStatePath(tag)
		vfCleanup(path)
		defer vfCleanup(path)
		board := &vfBoard{}
		e, err := vfOpenNode(path, 0, board)
		if err != nil {
			vf.Unreachable("open-node")
			return vfPublic{}, nil, 0
		}
		_ = e.fsm.SaveFSM("round", dump)
		if permute {
			vf.Permute(true)
		}
		perr := e.node.ProcessMessage(msg)
		if permute {
			vf.Permute(false)
		}
		return vfPublicState(e, n), perr, len(board.sent)
	}
	a, ea, sa := run("a", false)
	b, eb, sb := run("b", vf.Param("permute") == "1")
	label := "clock-free"
	if vf.Param("permute") == "1" {
		label = "maporder-free"
	}
	vf.Assert(label+":verdict", (ea == nil) == (eb == nil))
	vf.Assert(label+":round", vf.And(a.HasRnd == b.HasRnd, vf.Eq(a.Round, b.Round)))
	vf.Assert(label+":operations", vf.Eq(a.Ops, b.Ops))
	vf.Assert(label+":signatures", vf.BytesEq(a.Sigs, b.Sigs))
	vf.Assert(label+":board", sa == sb)
	vf.Assert("witness", false)
}
