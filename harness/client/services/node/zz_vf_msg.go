package node

// One board message against a node holding a round in an arbitrary reachable abstract state.
// Obligations of C09 (signature gate), C10 (speaker binding), C08 (round isolation), C18 (rejected => durable no-op).

import (
	"crypto/ed25519"
	"encoding/json"

	"github.com/lidofinance/dc4bc/client/types"
	"github.com/lidofinance/dc4bc/fsm/state_machines"
	fsmtypes "github.com/lidofinance/dc4bc/fsm/types"
	"github.com/lidofinance/dc4bc/internal/vf"
	"github.com/lidofinance/dc4bc/storage"
)

const (
	vfEvInit   = "event_sig_proposal_init"
	vfEvReinit = "reinit_dkg"
)

// VF_NodeMessage: params abs, event, data_event (the event the payload was produced for; "" = same).
func VF_NodeMessage() {
	abs := vf.Param("abs")
	ev := vf.Param("event")
	dataEv := vf.Param("data_event")
	if dataEv == "" {
		dataEv = ev
	}
	n := state_machines.VFAbsN(abs)
	path := vfStatePath("m")
	vfCleanup(path)
	defer vfCleanup(path)
	board := &vfBoard{}
	e, err := vfOpenNode(path, 0, board)
	if err != nil {
		vf.Unreachable("open-node")
		return
	}
	vfSeedRound(e, "round", abs)
	vfSeedRound(e, "other", abs)
	rounds := []string{"round", "other"}

	// the message: payload of the type dataEv expects (all fields symbolic), envelope chosen independently
	args := state_machines.VFRequest(dataEv, 0)
	var data []byte
	if dataEv == "signature_reconstructed" {
		args = nil
		data, _ = json.Marshal([]fsmtypes.ReconstructedSignature{{File: "f", BatchID: vf.Str("rs.batch"), MessageID: vf.Str("rs.msgid"),
			SrcPayload: vf.Bytes("rs.payload", 1), Signature: vf.Bytes("rs.sig", 1), Username: vf.Str("rs.user"), DKGRoundID: vf.Str("rs.round")}})
	} else if dataEv == vfEvReinit {
		// the reinitialisation message: round id inside the payload independent of the one on the envelope, no inner
		// messages (their replay is the ordinary message path, covered by the other events), one re-keyed participant
		// Param inner: the event of one inner message (the log being replayed), addressed to a live round or to the new one,
		// with an arbitrary signature (inner messages are replayed without verification).
		args = nil
		reID := []string{"round", "other", "unseen", ""}[vf.Choose("reinit.dkgid", 4)]
		var inner []storage.Message
		if iev := vf.Param("inner"); iev != "" {
			iargs := state_machines.VFRequest(iev, 0)
			var idata []byte
			if len(iargs) == 1 {
				idata, _ = json.Marshal(iargs[0])
			}
			iround := []string{"round", reID}[vf.Choose("reinit.inner.round", 2)]
			inner = append(inner, storage.Message{ID: "inner", DkgRoundID: iround, Event: iev, Data: idata,
				Signature: vf.OpaqueBytes("inner.sig"), SenderAddr: state_machines.VFUser(1)})
		}
		data, _ = json.Marshal(types.ReDKG{DKGID: reID, Threshold: vf.Int("reinit.threshold"),
			Participants: []types.Participant{{DKGPubKey: vf.Bytes("reinit.dkgkey", 1), OldCommPubKey: vf.Bytes("reinit.oldkey", 1),
				NewCommPubKey: vf.Bytes("reinit.newkey", 1), Name: state_machines.VFUser(0)}}, Messages: inner})
	} else if dataEv == "signature_reconstruction_failed" {
		args = state_machines.VFRequest("event_signing_partial_sign_error_received", 0)
		data, _ = json.Marshal(args[0])
	} else if len(args) == 1 {
		data, _ = json.Marshal(args[0])
	}
	senderKind := vf.Choose("sender", n+2) // 0..n-1: participants, n: stranger, n+1: empty
	if vf.Param("inner") != "" && senderKind != 0 {
		vf.Stop() // the envelope's sender plays no role for the reinitialisation message (explored without inner messages)
	}
	sender := ""
	if senderKind < n {
		sender = state_machines.VFUser(senderKind)
	} else if senderKind == n {
		sender = "stranger"
	}
	genuine := vf.Param("genuine") == "1"
	// Param prime: the same process has just verified (and then refused, for its unknown event name) a GENUINE message of this
	// sender; the message under test carries that message's signature over its own, different payload. Whatever the
	// node remembers between messages, a signature vouches for the bytes it was made for only.
	var primeSig []byte
	if vf.Param("prime") == "1" {
		if senderKind >= n || genuine {
			vf.Stop()
		}
		_, ppriv := state_machines.VFKeyPair(senderKind)
		pdata := []byte("prime-data")
		primeSig = ed25519.Sign(ppriv, pdata)
		_ = e.node.ProcessMessage(storage.Message{ID: "prime", DkgRoundID: "round", Event: "event_vf_unknown", Data: pdata,
			Signature: primeSig, SenderAddr: sender})
	}
	var sig []byte
	if genuine {
		// genuinely signed by the sender's own registered key (participants only)
		if senderKind >= n {
			vf.Stop()
		}
		_, priv := state_machines.VFKeyPair(senderKind)
		sig = ed25519.Sign(priv, data)
	} else if primeSig != nil {
		sig = primeSig
	} else {
		sig = vf.OpaqueBytes("msg.sig")
	}
	roundKind := vf.Choose("round", 4)
	if primeSig != nil && roundKind != 0 {
		vf.Stop()
	}
	if roundKind != 0 && senderKind != 0 {
		vf.Stop() // other / unseen round ids are explored with one sender only (bound, stated in the evidence)
	}
	roundID := []string{"round", "other", "unseen", ""}[roundKind]
	msg := storage.Message{ID: "id", DkgRoundID: roundID, Event: ev, Data: data, Signature: sig, SenderAddr: sender}

	pre := vfTake(e, rounds)
	preAll, _ := e.st.Get(vfTopic + "_fsm_state")
	perr := e.node.ProcessMessage(msg)
	post := vfTake(e, rounds)
	postAll, _ := e.st.Get(vfTopic + "_fsm_state")

	// oracle for "verified": registered sender and a signature that verifies under that sender's registered key
	verified := false
	if senderKind < n {
		pub, _ := state_machines.VFKeyPair(senderKind)
		verified = ed25519.Verify(pub, data, sig)
	}
	exempt := ev == vfEvInit || ev == vfEvReinit
	same := vfSame(pre, post, rounds)

	if !exempt {
		// C09
		vf.Assert("unverified-noop", vf.Implies(!verified, vf.And(perr != nil, same)))
	}
	if ev == vfEvInit && abs[:6] != "__idle" && roundKind < 2 {
		// the opening proposal is exempt from the signature gate by the statement; on a live round it must have no effect
		vf.Assert("init-on-live-round-noop", same)
	}
	vf.Assert("skipflag-restored", !e.node.SkipCommKeysVerification)
	if ev == vfEvReinit {
		// C10: the reinitialisation message is exempt from the signature gate because it only CREATES a round (confirmed out
		// of band by hash); whatever it carries, the rounds that already exist keep every participant's status and data
		for _, id := range rounds {
			vf.Assert("reinit-leaves-live-rounds-untouched", vf.And(vf.BytesEq(pre.rounds[id], post.rounds[id]), vf.BytesEq(pre.sigs[id], post.sigs[id])))
		}
	}

	// C08: a message for one round leaves every other round untouched
	for _, id := range rounds {
		if id != roundID {
			vf.Assert("round-isolated", vf.And(vf.BytesEq(pre.rounds[id], post.rounds[id]), vf.BytesEq(pre.sigs[id], post.sigs[id])))
		}
	}

	// C18: rejected input is a durable no-op (everything except the offset)
	if perr != nil {
		if roundKind >= 2 {
			vf.Assert("rejected-durable-noop:unseen-round-id", vf.And(same, vf.BytesEq(preAll, postAll)))
		} else {
			vf.Assert("rejected-durable-noop:existing-round", vf.And(same, vf.BytesEq(preAll, postAll)))
		}
	}

	// C10(1): an accepted contribution in P's name must come from P
	if perr == nil && !exempt && genuine {
		if pid, has := state_machines.VFPid(args); has && dataEv == ev && roundKind == 0 {
			// "effective" = something durable changed
			vf.Assert("sender-is-participant", vf.Implies(!same, pid == senderKind))
		}
	}
	// C10(2): a genuinely signed payload is effective only for the round and step it was produced for.
	// (round0 = "round", event0 = data_event: the author produced it for that pair.)
	if genuine && (dataEv != ev || roundKind != 0) {
		vf.Assert("bound-to-round-and-event", vf.Or(perr != nil, same))
	}
	if perr == nil {
		vf.Record("accepted", ev, roundID, sender)
	}
	vf.Assert("witness", false)
}
