package node

// C20 (adaptation of 0.1.4 logs): GetAdaptedReDKG inserts exactly one self-confirmation before each sender's first
// deal message, keeps every original message in order and renumbers the offsets.

import (
	"encoding/json"
	"strconv"

	"github.com/lidofinance/dc4bc/client/types"
	"github.com/lidofinance/dc4bc/fsm/types/requests"
	"github.com/lidofinance/dc4bc/internal/vf"
	"github.com/lidofinance/dc4bc/storage"
)

const vfDealEv = "event_dkg_deal_confirm_received"

func VF_C20_Adapt() {
	nm := vf.ParamInt("nm")
	orig := &types.ReDKG{DKGID: "round", Threshold: 2}
	senders := []string{"alice", "bobby", "carol"}
	var isDeal []bool
	var who []int
	for i := 0; i < nm; i++ {
		is := strconv.Itoa(i)
		s := vf.Choose("m"+is+".sender", 3)
		rc := (s + 1 + vf.Choose("m"+is+".recipient", 2)) % 3 // any other participant
		deal := vf.Choose("m"+is+".deal", 2) == 1
		m := storage.Message{ID: "id" + is, DkgRoundID: "round", Offset: vf.Uint64("m" + is + ".offset"),
			SenderAddr: senders[s], RecipientAddr: senders[rc], Signature: vf.Bytes("m"+is+".sig", 1)}
		if deal {
			m.Event = vfDealEv
			m.Data, _ = json.Marshal(requests.DKGProposalDealConfirmationRequest{ParticipantId: vf.Int("m" + is + ".pid"),
				Deal: vf.Bytes("m"+is+".deal", 1), CreatedAt: vf.Time("m" + is + ".created")})
		} else {
			m.Event = "event_dkg_commit_confirm_received"
			m.Data, _ = json.Marshal(requests.DKGProposalCommitConfirmationRequest{ParticipantId: vf.Int("m" + is + ".pid"),
				Commit: vf.Bytes("m"+is+".commit", 1), CreatedAt: vf.Time("m" + is + ".created")})
		}
		orig.Messages = append(orig.Messages, m)
		isDeal = append(isDeal, deal)
		who = append(who, s)
	}
	ad, err := GetAdaptedReDKG(orig)
	vf.Assert("adapt-0.1.4:no-error", err == nil)
	if err != nil {
		return
	}
	vf.Assert("adapt-0.1.4:header", ad.DKGID == orig.DKGID && ad.Threshold == orig.Threshold)
	// reference: walk the original log
	fixed := map[int]bool{}
	j := 0
	for i, m := range orig.Messages {
		if isDeal[i] && !fixed[who[i]] {
			fixed[who[i]] = true
			if j >= len(ad.Messages) {
				vf.Unreachable("adapt-0.1.4:self-confirm-missing")
				return
			}
			sc := ad.Messages[j]
			var req requests.DKGProposalDealConfirmationRequest
			uerr := json.Unmarshal(sc.Data, &req)
			var oreq requests.DKGProposalDealConfirmationRequest
			_ = json.Unmarshal(m.Data, &oreq)
			vf.Assert("adapt-0.1.4:self-confirm", vf.And(uerr == nil, sc.Event == vfDealEv, sc.SenderAddr == m.SenderAddr,
				sc.RecipientAddr == m.SenderAddr, sc.DkgRoundID == m.DkgRoundID, sc.Offset == uint64(j),
				req.ParticipantId == oreq.ParticipantId, string(req.Deal) == "self-confirm", req.CreatedAt.Equal(oreq.CreatedAt)))
			j++
		}
		if j >= len(ad.Messages) {
			vf.Unreachable("adapt-0.1.4:original-missing")
			return
		}
		k := ad.Messages[j]
		vf.Assert("adapt-0.1.4:keeps-originals-in-order", vf.And(k.ID == m.ID, k.Event == m.Event, vf.BytesEq(k.Data, m.Data),
			vf.BytesEq(k.Signature, m.Signature), k.SenderAddr == m.SenderAddr, k.RecipientAddr == m.RecipientAddr))
		vf.Assert("adapt-0.1.4:renumbers-offsets", k.Offset == uint64(j))
		j++
	}
	vf.Assert("adapt-0.1.4:nothing-else-added", j == len(ad.Messages))
	vf.Assert("witness", false)
}
