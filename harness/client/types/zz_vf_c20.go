package types

// C20 (hash part): the confirmation hash of a reinit file is sensitive to every single-field edit and is a
// function of the parsed file only.

import (
	"encoding/json"
	"strconv"

	"github.com/lidofinance/dc4bc/internal/vf"
	"github.com/lidofinance/dc4bc/storage"
)

func vfReDKG(tag string, np, nm int) ReDKG {
	r := ReDKG{DKGID: vf.Str(tag + "dkgid"), Threshold: vf.Int(tag + "threshold")}
	for i := 0; i < np; i++ {
		is := strconv.Itoa(i)
		r.Participants = append(r.Participants, Participant{
			DKGPubKey:     vf.OpaqueBytes(tag + "p" + is + ".dkgkey"),
			OldCommPubKey: vf.OpaqueBytes(tag + "p" + is + ".oldkey"),
			NewCommPubKey: vf.OpaqueBytes(tag + "p" + is + ".newkey"),
			Name:          vf.Str(tag + "p" + is + ".name"),
		})
	}
	for i := 0; i < nm; i++ {
		is := strconv.Itoa(i)
		r.Messages = append(r.Messages, storage.Message{
			ID:            vf.Str(tag + "m" + is + ".id"),
			DkgRoundID:    vf.Str(tag + "m" + is + ".round"),
			Offset:        vf.Uint64(tag + "m" + is + ".offset"),
			Event:         vf.Str(tag + "m" + is + ".event"),
			Data:          vf.OpaqueBytes(tag + "m" + is + ".data"),
			Signature:     vf.OpaqueBytes(tag + "m" + is + ".signature"),
			SenderAddr:    vf.Str(tag + "m" + is + ".sender"),
			RecipientAddr: vf.Str(tag + "m" + is + ".recipient"),
		})
	}
	return r
}

// vfC20Fields lists the hashed fields of a file with np participants and nm messages.
func vfC20Fields(np, nm int) []string {
	fs := []string{"dkgid", "threshold"}
	for i := 0; i < np; i++ {
		is := strconv.Itoa(i)
		fs = append(fs, "p"+is+".newkey", "p"+is+".oldkey", "p"+is+".dkgkey", "p"+is+".name")
	}
	for i := 0; i < nm; i++ {
		is := strconv.Itoa(i)
		fs = append(fs, "m"+is+".data", "m"+is+".signature", "m"+is+".recipient", "m"+is+".event", "m"+is+".sender", "m"+is+".round", "m"+is+".offset")
	}
	return fs
}

// vfC20Edit returns a copy of r with exactly the named field replaced by a different value.
func vfC20Edit(r ReDKG, field string) ReDKG {
	e := r
	e.Participants = append([]Participant{}, r.Participants...)
	e.Messages = append([]storage.Message{}, r.Messages...)
	nb := vf.OpaqueBytes("edit.bytes")
	ns := vf.Str("edit.str")
	switch field {
	case "dkgid":
		vf.Assume(ns != r.DKGID)
		e.DKGID = ns
		return e
	case "threshold":
		nt := vf.Int("edit.int")
		vf.Assume(nt != r.Threshold)
		e.Threshold = nt
		return e
	}
	idx := int(field[1] - '0')
	what := field[3:]
	if field[0] == 'p' {
		p := &e.Participants[idx]
		switch what {
		case "newkey":
			vf.Assume(!vf.BytesEq(nb, p.NewCommPubKey))
			p.NewCommPubKey = nb
		case "oldkey":
			vf.Assume(!vf.BytesEq(nb, p.OldCommPubKey))
			p.OldCommPubKey = nb
		case "dkgkey":
			vf.Assume(!vf.BytesEq(nb, p.DKGPubKey))
			p.DKGPubKey = nb
		case "name":
			vf.Assume(ns != p.Name)
			p.Name = ns
		}
		return e
	}
	m := &e.Messages[idx]
	switch what {
	case "data":
		vf.Assume(!vf.BytesEq(nb, m.Data))
		m.Data = nb
	case "signature":
		vf.Assume(!vf.BytesEq(nb, m.Signature))
		m.Signature = nb
	case "recipient":
		vf.Assume(ns != m.RecipientAddr)
		m.RecipientAddr = ns
	case "event":
		vf.Assume(ns != m.Event)
		m.Event = ns
	case "sender":
		vf.Assume(ns != m.SenderAddr)
		m.SenderAddr = ns
	case "round":
		vf.Assume(ns != m.DkgRoundID)
		m.DkgRoundID = ns
	case "offset":
		no := vf.Uint64("edit.uint")
		vf.Assume(no != m.Offset)
		m.Offset = no
	}
	return e
}

// VF_C20_HashSensitive: params np, nm, field.
func VF_C20_HashSensitive() {
	np, nm := vf.ParamInt("np"), vf.ParamInt("nm")
	field := vf.Param("field")
	// collision resistance of SHA-1 and injectivity of decimal formatting are the stated assumptions
	vf.Injective("sha1")
	vf.Injective("itoa")
	vf.Injective("utoa")
	a := vfReDKG("", np, nm)
	b := vfC20Edit(a, field)
	pa, erra := json.Marshal(a)
	pb, errb := json.Marshal(b)
	if erra != nil || errb != nil {
		vf.Unreachable("harness-marshal")
		return
	}
	ha, e1 := CalcStartReInitDKGMessageHash(pa)
	hb, e2 := CalcStartReInitDKGMessageHash(pb)
	vf.Assert("hash-no-error", e1 == nil && e2 == nil)
	if e1 != nil || e2 != nil {
		return
	}
	vf.Assert("hash-sensitive:"+field, !vf.BytesEq(ha, hb))
	// determinism: hashing the same file again gives the same value
	ha2, _ := CalcStartReInitDKGMessageHash(pa)
	vf.Assert("hash-deterministic", vf.BytesEq(ha, ha2))
	vf.Assert("witness", false)
}
