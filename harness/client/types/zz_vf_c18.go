package types

// C18 (operation files): an arbitrary decoded operation never crashes the helpers the airgapped machine and the CLI
// call on it before/after handling (Filename, IsSigningState, Equal).

import (
	"github.com/lidofinance/dc4bc/fsm/fsm"
	"github.com/lidofinance/dc4bc/internal/vf"
)

func VF_C18_OperationHelpers() {
	types := []string{"state_signing_await_partial_signs", "state_dkg_commits_await_confirmations", "reinit_dkg", "unknown_type"}
	o := &Operation{
		ID: vf.Str("op.id"), Type: OperationType(types[vf.Choose("op.type", len(types))]), Payload: vf.OpaqueBytes("op.payload"),
		DKGIdentifier: vf.Str("op.round"), To: vf.Str("op.to"), Event: fsm.Event(vf.Str("op.event")), CreatedAt: vf.TimeZ("op.created"),
	}
	panicked := false
	func() {
		defer func() {
			if r := recover(); r != nil {
				panicked = true
			}
		}()
		_ = o.Filename()
		_ = o.IsSigningState()
		_ = o.Equal(o)
	}()
	vf.Assert("nopanic:Operation.Filename", !panicked)
	vf.Assert("witness", false)
}
