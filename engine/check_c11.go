package main

import "fmt"

const dkgPkg = "dkg"

func init() {
	checkDefs["C11"] = &checkDef{level: "other", pkgs: []string{dkgPkg, airPkg}, run: func(cr *CheckRun) {
		opts := defaultOpts()
		cfgs := [][2]int{{2, 2}, {3, 2}}
		if cr.Tier == "thorough" {
			cfgs = append(cfgs, [2]int{3, 3}, [2]int{4, 2}, [2]int{4, 3})
		}
		var jobs []Job
		for _, c := range cfgs {
			jobs = append(jobs, Job{Pkg: dkgPkg, Fn: "VF_C11_Deals", Opts: opts, Tag: fmt.Sprintf("n=%d t=%d", c[0], c[1]), Case: "ProcessDeals",
				Params: map[string]string{"n": fmt.Sprint(c[0]), "t": fmt.Sprint(c[1])}})
		}
		// two cooperating dealers that swap their commitments AND their deals (each looks consistent under the other's name)
		jobs = append(jobs, Job{Pkg: dkgPkg, Fn: "VF_C11_Deals", Opts: opts, Tag: "n=3 t=2 dealers 1 and 2 swapped", Case: "ProcessDeals",
			Params: map[string]string{"n": "3", "t": "2", "swap": "1"}})
		swapJob := jobs[len(jobs)-1]
		res := cr.Pool.Run(jobs)
		cr.absorb(jobs, res)
		if len(cr.fails) == 0 {
			cr.validateNatively(swapJob, nil, nil)
		}
		// contract validation against real kyber: every kind of deviation (and the honest case) natively, n=2
		if len(cr.fails) == 0 {
			for k := 0; k < 10; k++ {
				cr.validateNatively(jobs[0], nil, map[string]int{"dealer1.kind": k})
			}
			cr.validateNatively(jobs[1], nil, map[string]int{"dealer1.kind": 0, "dealer2.kind": 3})
		}
		// machine level: a signed complaint against a dealer at the master-key step (n=3, t=2)
		{
			cj := []Job{{Pkg: airPkg, Fn: "VF_Air_Complaint", Opts: opts, Tag: "complaint in the responses (n=3 t=2)", Case: "complaint", Params: map[string]string{"tag": "c11cmp"}}}
			runCeremony(cr, cj, nil)
			if len(cr.fails) == 0 {
				cr.validateNatively(cj[0], nil, map[string]int{"accused": 0})
				cr.validateNatively(cj[0], nil, map[string]int{"accused": 1})
			}
		}
		cr.samples = append(cr.samples, map[string]interface{}{"deviation_kinds": []string{"honest", "status-false", "decrypt-fail", "commit-differs", "commit-shorter", "bad-signature", "index-outside", "commit-missing", "commit-empty", "commit-longer"}, "configs": cfgs})
		cr.explanation = "dc4bc's share of C11: dkg.(*DKG).ProcessDeals/processDealCommits/StoreDeal/StoreCommits/InitDKGInstance executed from SSA; every non-victim participant is a dealer of a chosen kind (honest, inconsistent share, undecryptable deal, deal committing to other coefficients than broadcast, broadcast commitments of wrong length (shorter, longer, empty, never broadcast), bad dealer signature, index outside the list); kyber's verdicts are inputs of the stubs. Obligations: any deviation => ProcessDeals fails (=> the airgapped machine publishes the *_canceled_by_error event; that this cancels the round on every node and that a cancelled round never becomes signing-ready is C05), and success => every deal was consistent. Every kind is additionally executed natively against real kyber (n=2) on each run. Machine level (VF_Air_Complaint, n=3, t=2, kyber DKG contracts): after honest commitments, deals and responses, participant 1's response message carries a validly signed complaint against dealer 0 (or dealer 2); every other machine given that message at the master-key step publishes event_dkg_master_key_confirm_canceled_by_error and stores no keyring; run natively with a really re-signed complaint."
		cr.bounds["configurations"] = fmt.Sprintf("%v (n,t); every combination of dealer kinds", cfgs)
		cr.bounds["outside"] = "VSS soundness itself (that kyber's ProcessDeal/DecryptDeal detect what they claim); justifications (never exchanged by dc4bc), complaints by more than one participant"
		cr.assume = append(cr.assume, "kyber contracts of engine/intrin_kyber_dkg.go (NewDistKeyGenerator, ProcessDeal, Verifiers, DecryptDeal, Point.Equal)")
		cr.trusted = append(cr.trusted, "gosx SSA->SMT executor", "z3 4.8.12", "kyber v1.6.0 contracts (validated natively per run)")
	}}
}
