package main

// Goroutines started by the code under test (`go f()`): cooperative logical threads with ONE deterministic schedule.
// A goroutine is queued at its go statement; the running thread keeps the processor until it blocks (receive on an
// empty open channel, WaitGroup.Wait with a positive counter, Lock on a mutex held by another thread, a blocking
// select with nothing ready) or ends; then the next live thread (round robin) runs. Channel sends never block (every
// channel is treated as unboundedly buffered). Other interleavings of such goroutines are outside the claim; the two
// harness-level threads of vf.Par (engine/sched.go) are the place where schedules are enumerated.

import "fmt"

type gthread struct {
	id     int
	resume chan struct{}
	dead   chan struct{}
	done   bool
	killed bool
	cur    *frame
	abort  interface{}
}

type goRT struct {
	threads []*gthread
	cur     int
	spins   int
	wg      map[Ptr]int64
}

type threadKilled struct{}

func (in *Interp) gort() *goRT {
	rt, _ := in.hooks["gort"].(*goRT)
	return rt
}

func (in *Interp) goStmt(fr *frame, fn Value, args []Value, site interface{}) {
	if s := in.sched(); s != nil && s.active {
		panic(unsupported("go statement inside vf.Par"))
	}
	rt := in.gort()
	if rt == nil {
		rt = &goRT{wg: map[Ptr]int64{}}
		rt.threads = append(rt.threads, &gthread{id: 0, resume: make(chan struct{})})
		in.hooks["gort"] = rt
	}
	if len(rt.threads) > 64 {
		panic(inconclusive{"more than 64 goroutines"})
	}
	t := &gthread{id: len(rt.threads), resume: make(chan struct{}), dead: make(chan struct{})}
	rt.threads = append(rt.threads, t)
	go func() {
		defer close(t.dead)
		<-t.resume
		if t.killed {
			t.done = true
			return
		}
		defer func() {
			r := recover()
			t.done = true
			if _, k := r.(threadKilled); k || t.killed {
				return
			}
			if r != nil {
				t.abort = r
			}
			rt.spins = 0
			// hand the processor to the next live thread for good
			to := rt.next(t.id)
			if to < 0 {
				return
			}
			rt.cur = to
			rt.threads[to].resume <- struct{}{}
		}()
		in.cur = nil
		in.callValue(nil, fn, args, nil)
	}()
}

func (rt *goRT) next(from int) int {
	n := len(rt.threads)
	for d := 1; d <= n; d++ {
		i := (from + d) % n
		if i != from && !rt.threads[i].done {
			return i
		}
	}
	return -1
}

// gwait: the running thread cannot proceed; run somebody else, come back later (the caller re-checks its condition).
func (in *Interp) gwait(what string) {
	rt := in.gort()
	if rt == nil {
		panic(pathDone{"blocked on " + what})
	}
	from := rt.cur
	to := rt.next(from)
	if to < 0 {
		panic(pathDone{"blocked on " + what + " (no other goroutine)"})
	}
	rt.spins++
	if rt.spins > 2*len(rt.threads)+2 {
		panic(pathDone{"deadlock: all goroutines blocked (" + what + ")"})
	}
	me := rt.threads[from]
	me.cur = in.cur
	rt.cur = to
	in.cur = rt.threads[to].cur
	rt.threads[to].resume <- struct{}{}
	<-me.resume
	if me.killed {
		panic(threadKilled{})
	}
	in.cur = me.cur
	rt.cur = from
	// an abort raised in another thread ends the path: propagate it
	for _, t := range rt.threads {
		if t.abort != nil {
			a := t.abort
			t.abort = nil
			panic(a)
		}
	}
}

func (in *Interp) gprogress() {
	if rt := in.gort(); rt != nil {
		rt.spins = 0
	}
}

// gkillAll ends every parked goroutine of the path (called when the path is over, from the thread that ended it).
func (in *Interp) gkillAll() {
	rt := in.gort()
	if rt == nil {
		return
	}
	delete(in.hooks, "gort")
	for _, t := range rt.threads {
		if t.id == 0 || t.done || t.id == rt.cur {
			continue
		}
		t.killed = true
		t.resume <- struct{}{}
		<-t.dead
	}
	// if the path ended inside a spawned thread, the main thread is parked for good: release it too
	if rt.cur != 0 {
		m := rt.threads[0]
		m.killed = true
		select {
		case m.resume <- struct{}{}:
		default:
		}
	}
}

// ---- WaitGroup / Mutex under goroutines ----

func (in *Interp) wgAdd(p Ptr, d int64) {
	rt := in.gort()
	if rt == nil {
		// no goroutine yet: remember the count for a later Wait
		c, _ := in.hooks["wg0"].(map[Ptr]int64)
		if c == nil {
			c = map[Ptr]int64{}
			in.hooks["wg0"] = c
		}
		c[p] += d
		return
	}
	if c, _ := in.hooks["wg0"].(map[Ptr]int64); c != nil {
		for k, v := range c {
			rt.wg[k] += v
		}
		delete(in.hooks, "wg0")
	}
	rt.wg[p] += d
	if rt.wg[p] < 0 {
		panic(&goPanic{msg: "sync: negative WaitGroup counter", stack: in.stack()})
	}
	if d < 0 {
		rt.spins = 0
	}
}

func (in *Interp) wgWait(p Ptr) {
	for {
		rt := in.gort()
		if rt == nil {
			return // single-threaded: nothing can be outstanding that would ever finish
		}
		if c, _ := in.hooks["wg0"].(map[Ptr]int64); c != nil {
			for k, v := range c {
				rt.wg[k] += v
			}
			delete(in.hooks, "wg0")
		}
		if rt.wg[p] <= 0 {
			return
		}
		in.gwait("WaitGroup.Wait")
	}
}

type gmutex struct {
	owner, count int
}

func (in *Interp) gmutexes() map[Ptr]*gmutex {
	m, _ := in.hooks["gmu"].(map[Ptr]*gmutex)
	if m == nil {
		m = map[Ptr]*gmutex{}
		in.hooks["gmu"] = m
	}
	return m
}

// gMutexLock: ownership is recorded from the start (a lock taken before the first go statement is still held when
// goroutines appear); re-acquisition by the owner is tolerated (no self-deadlock detection here).
func (in *Interp) gMutexLock(p Ptr) {
	mu := in.gmutexes()
	for {
		me := 0
		if rt := in.gort(); rt != nil {
			me = rt.cur
		}
		m := mu[p]
		if m == nil {
			mu[p] = &gmutex{owner: me, count: 1}
			return
		}
		if m.owner == me {
			m.count++
			return
		}
		in.gwait("Mutex.Lock")
	}
}

func (in *Interp) gMutexUnlock(p Ptr) {
	mu := in.gmutexes()
	if m := mu[p]; m != nil {
		m.count--
		if m.count <= 0 {
			delete(mu, p)
		}
	}
	in.gprogress()
}

var _ = fmt.Sprint
