package main

// C17: baked withdrawal-credential messages equal the consensus-spec signing roots (translation validation:
// implementation incl. fastssz's real Hasher vs. a reference model written from the spec; SHA-256 compression is a UF).

import (
	"fmt"
	"strconv"
)

const reqPkg = "fsm/types/requests"

func init() {
	checkDefs["C17"] = &checkDef{level: "translation_validation", pkgs: []string{reqPkg}, run: func(cr *CheckRun) {
		opts := defaultOpts()
		opts.Witness = true
		jobs := []Job{
			{Pkg: reqPkg, Fn: "VF_C17_Root", Opts: opts, Tag: "all uint64 validator indices", Case: "root"},
			{Pkg: reqPkg, Fn: "VF_C17_Constants", Opts: opts, Tag: "constants", Case: "constants"},
			{Pkg: reqPkg, Fn: "VF_C17_OutOfRange", Opts: opts, Tag: "all int positions outside [0,18632)", Case: "out-of-range"},
		}
		const entries = 18632
		for base := 0; base < entries; base += 64 {
			jobs = append(jobs, Job{Pkg: reqPkg, Fn: "VF_C17_Block", Opts: opts, Tag: fmt.Sprintf("block base=%d", base), Case: "table",
				Params: map[string]string{"base": strconv.Itoa(base)}})
		}
		res := cr.Pool.Run(jobs)
		cr.absorb(jobs, res)
		// left-inverse certificate: every position yields one index, no index twice
		inv := map[string]int{}
		seenPos := map[int]bool{}
		dups := 0
		for _, jr := range res {
			for _, p := range jr.Paths {
				for _, r := range p.Records {
					if r.Key != "entry" || len(r.Vals) != 2 {
						continue
					}
					pos, _ := strconv.Atoi(r.Vals[0])
					seenPos[pos] = true
					if q, ok := inv[r.Vals[1]]; ok && q != pos {
						dups++
						cr.fails = append(cr.fails, Violation{Label: "table-injective", Case: fmt.Sprintf("positions %d and %d both yield validator index %s", q, pos, r.Vals[1])})
						cr.stat("table-injective").Failed++
					} else {
						inv[r.Vals[1]] = pos
						cr.stat("table-injective").Proved++
					}
				}
			}
		}
		missing := 0
		for p := 0; p < entries; p++ {
			if !seenPos[p] {
				missing++
			}
		}
		if missing > 0 && len(cr.fails) == 0 {
			cr.note(fmt.Sprintf("%d table positions produced no entry record", missing))
		}
		for i, jr := range res[:3] {
			for _, p := range jr.Paths {
				if p.Witness != nil && len(cr.samples) < 4 {
					cr.samples = append(cr.samples, map[string]interface{}{"harness": jobs[i].Fn, "model": trimModel(p.Witness, "")})
				}
			}
		}
		cr.samples = append(cr.samples, map[string]interface{}{"table_positions_checked": len(seenPos), "distinct_indices": len(inv)})
		cr.extra["programs"] = 2
		cr.extra["disagreements_checked"] = cr.Pool.Queries
		cr.explanation = "GetSigningRoot (with the three generated HashTreeRootWith methods and fastssz's real Hasher/Merkleize executed from SSA) is compared with a reference model of hash_tree_root/compute_domain/compute_signing_root written from the consensus spec, for a symbolic uint64 index, SHA-256 as an uninterpreted function; positions: symbolic int outside the list; table: every 64-entry block with a symbolic offset."
		cr.bounds["validator_index"] = "all uint64 (one symbolic query)"
		cr.bounds["position_out_of_range"] = "all int outside [0,18632)"
		cr.bounds["table"] = "all 18632 positions, in 292 blocks of 64 with a solver-enumerated symbolic offset"
		cr.bounds["outside"] = "SHA-256 itself (uninterpreted: functional congruence only); the claim that the reference model transcribes the consensus spec correctly (checked by the pinned test vector on every replay)"
		cr.assume = append(cr.assume, "sha256 compression modelled as an uninterpreted function on the written byte sequence", "sync.Pool never returns a recycled Hasher (fresh Hasher per call)")
		cr.trusted = append(cr.trusted, "gosx SSA->SMT executor", "z3 4.8.12", "reference model specSigningRoot in harness/fsm/types/requests/zz_vf_c17.go")
		cr.exhaustive = true
	}}
}
