package main

import (
	"fmt"
	"strconv"
)

const filePkg = "storage/file_storage"

func init() {
	checkDefs["C16"] = &checkDef{level: "model_checking", pkgs: []string{filePkg}, run: func(cr *CheckRun) {
		opts := defaultOpts()
		opts.Witness = true
		maxk := 4
		if cr.Tier == "thorough" {
			maxk = 5
		}
		var jobs []Job
		for k := 1; k <= maxk; k++ {
			jobs = append(jobs, Job{Pkg: filePkg, Fn: "VF_C16_Append", Opts: opts, Tag: fmt.Sprintf("append k=%d", k), Case: "append",
				Params: map[string]string{"k": strconv.Itoa(k), "tag": fmt.Sprintf("a%d_%d", k, cr.Seed), "exact_json_len": "1"}})
		}
		jobs = append(jobs, Job{Pkg: filePkg, Fn: "VF_C16_Ignore", Opts: opts, Tag: "ignore lists", Case: "ignore",
			Params: map[string]string{"tag": fmt.Sprintf("i_%d", cr.Seed), "exact_json_len": "1"}})
		jobs = append(jobs, Job{Pkg: filePkg, Fn: "VF_C16_Content", Opts: opts, Tag: "content read back", Case: "content",
			Params: map[string]string{"tag": fmt.Sprintf("c_%d", cr.Seed), "exact_json_len": "1"}})
		res := cr.Pool.Run(jobs)
		cr.absorb(jobs, res)
		st, tr := 0, 0
		for i, jr := range res {
			for _, p := range jr.Paths {
				if p.Status == "ok" {
					st++
					tr += len(p.Decisions) + 1
					if p.Witness != nil && len(cr.samples) < 5 {
						m := map[string]interface{}{}
						for k, v := range p.Witness {
							if v.Sort == "str" {
								m[k] = fmt.Sprintf("<%d bytes>", len(v.S))
							}
						}
						cr.samples = append(cr.samples, map[string]interface{}{"harness": jobs[i].Fn, "params": jobs[i].Params, "decisions": fmtDecisions(p.Decisions), "payload_sizes": m})
					}
				}
			}
		}
		cr.states, cr.trans = st, tr
		cr.explanation = "send/Send/countLines/GetMessages/IgnoreMessages/UnignoreMessages/NewFileStorage executed from SSA over a line-structured file model; message payload sizes are symbolic (line length = exact JSON/base64 length term), bufio.Scanner follows its documented token-size rule; every assignment of the messages to two handles; every message the reader accepts (< 1 MiB line) must get offset = position."
		cr.bounds["messages"] = fmt.Sprintf("1..%d messages per log, payload length symbolic in [0, 700000) bytes (lines the 1 MiB reader accepts)", maxk)
		cr.bounds["writers"] = "two handles, every pattern of who sends which message (the lock is held for the whole count-then-append, so sends do not interleave below that granularity in the model)"
		cr.bounds["outside"] = "kernel flock/O_APPEND semantics, disk-full, true goroutine/process concurrency below the granularity of one send, more messages per log"
		cr.assume = append(cr.assume, "file = sequence of lines; Fprintln appends exactly one line atomically", "bufio.Scanner stops (ErrTooLong) at the first line with len+1 > max token size", "random UUIDs are pairwise distinct")
		cr.trusted = append(cr.trusted, "gosx SSA->SMT executor", "z3 4.8.12", "file/scanner/lock stubs in engine/intrin_io.go")
		cr.states = st
	}}
}
