package main

// Worker pool: one solver process per worker, jobs are (harness, params).

import (
	"sync"

	"golang.org/x/tools/go/ssa"
)

type Job struct {
	Pkg    string // repo-relative package dir
	Fn     string
	Params map[string]string
	Opts   RunOpts
	Tag    string
	Case   string // coarse case key used to group failures and to match known findings (defaults to Tag)
}

type Pool struct {
	P       *Program
	workers int
	solver  string
	mu      sync.Mutex
	Queries int
	SolverS float64
	Funcs   map[string]bool
	Jobs    int
	Paths   int
	Steps   int
	WallS   float64
}

func NewPool(P *Program, workers int, solver string) *Pool {
	return &Pool{P: P, workers: workers, solver: solver, Funcs: map[string]bool{}}
}

func (pl *Pool) find(j Job) *ssa.Function { return pl.P.FindFunc(modPath+"/"+j.Pkg, j.Fn) }

// Run executes all jobs in parallel and returns results in job order.
func (pl *Pool) Run(jobs []Job) []*JobResult {
	res := make([]*JobResult, len(jobs))
	ch := make(chan int)
	var wg sync.WaitGroup
	nw := pl.workers
	if nw > len(jobs) {
		nw = len(jobs)
	}
	for w := 0; w < nw; w++ {
		wg.Add(1)
		go func() {
			defer wg.Done()
			var sol *Solver
			defer func() {
				if sol != nil {
					sol.Close()
				}
			}()
			for i := range ch {
				j := jobs[i]
				if sol == nil || sol.timeoutMs != j.Opts.TimeoutMs {
					if sol != nil {
						sol.Close()
					}
					var err error
					sol, err = NewSolver(pl.solver, j.Opts.TimeoutMs)
					if err != nil {
						res[i] = &JobResult{Harness: j.Fn, Paths: []*PathResult{{Status: "unsupported", Why: "solver start: " + err.Error(), Inconclusive: true}}}
						sol = nil
						continue
					}
				}
				fn := pl.find(j)
				if fn == nil {
					res[i] = &JobResult{Harness: j.Fn, Paths: []*PathResult{{Status: "unsupported", Why: "harness function not found: " + j.Pkg + "." + j.Fn, Inconclusive: true}}}
					continue
				}
				jr := RunHarness(pl.P, sol, fn, j.Params, j.Opts)
				res[i] = jr
				pl.mu.Lock()
				pl.Queries += jr.Queries
				pl.SolverS += jr.SolverSec
				pl.Jobs++
				pl.Paths += len(jr.Paths)
				pl.Steps += jr.Steps
				pl.WallS += jr.WallSec
				for _, f := range jr.Funcs {
					pl.Funcs[f] = true
				}
				pl.mu.Unlock()
			}
		}()
	}
	for i := range jobs {
		ch <- i
	}
	close(ch)
	wg.Wait()
	return res
}
