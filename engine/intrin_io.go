package main

// Storage / file stubs (filled in by later phases).

func registerIO(P *Program) {}
