package main

// Environment stubs: files (line-structured, append-only), bufio.Scanner, fslock, LevelDB.
// Contracts (each is part of the claim of the checks that use it):
//  * file = sequence of lines; fmt.Fprintln(file, s) appends one line atomically (O_APPEND single write); each append is
//    one durable effect;
//  * bufio.Scanner.Scan (Go doc + bufio/scan.go): returns lines in order until EOF or until the first line whose length
//    plus the newline does not fit the maximum token size (64 KiB unless Buffer was called) - then it stops with ErrTooLong;
//  * fslock.Lock/Unlock = mutex shared by all handles created with the same path;
//  * leveldb.DB = atomic key -> bytes map per path; Get of a missing key returns leveldb.ErrNotFound; the content
//    persists for the whole path (i.e. across a simulated restart); each Put/Delete is one durable effect.

import (
	"strings"
	"fmt"
	"go/types"
	"path/filepath"

	"golang.org/x/tools/go/ssa"
)

type fileLine struct {
	content SliceV
	length  *Term // Int
}

type fileObj struct {
	name  string
	lines []*fileLine
}

type fileHandle struct {
	f      *fileObj
	pos    int
	closed bool
	// the byte position lies strictly inside line pos (after a Seek to an offset that is not a line start): the next
	// read yields the rest of that line (rest bytes, content unknown)
	partial bool
	rest    *Term
}

type scannerObj struct {
	h      *fileHandle
	maxTok int64
	cur    *fileLine
	err    Value
	done   bool
}

type dbObj struct {
	path string
	m    *MapV
}

const bufioMaxScanTokenSize = 64 * 1024

func (in *Interp) effect(what string) {
	// durable effect counter (crash points are implemented by the scheduler in sched.go)
	n, _ := in.hooks["effects"].(int)
	n++
	in.hooks["effects"] = n
	if lim, ok := in.hooks["crash_after"].(int); ok && lim > 0 && n == lim {
		in.hooks["crash_after"] = 0
		panic(&goPanic{msg: "vf: simulated crash", val: Iface{T: types.Typ[types.String], V: in.ts.Str("vf-crash")}, stack: what})
	}
}

func (in *Interp) fileByName(name string) *fileObj {
	key := "file:" + name
	if f, ok := in.hooks[key].(*fileObj); ok {
		return f
	}
	f := &fileObj{name: name}
	in.hooks[key] = f
	return f
}

func handleOf(in *Interp, v Value) *fileHandle {
	p, ok := v.(Ptr)
	if !ok || p == nil {
		in.rtPanic("nil *os.File")
	}
	op, ok := (*p).(*Opaque)
	if !ok || op.Kind != "os.File" {
		panic(unsupported("operation on a non-modelled *os.File"))
	}
	h, ok := op.Data.(*fileHandle)
	if !ok {
		panic(unsupported("operation on std stream"))
	}
	return h
}

func (in *Interp) lineLen(s SliceV) *Term {
	return in.ts.SBv2Int(in.lenTerm(s))
}

func registerIO(P *Program) {
	r := P.reg
	r("os.OpenFile", func(in *Interp, caller *frame, fn *ssa.Function, args []Value) Value {
		name, ok := cstr(args[0])
		if !ok {
			name = "sym:" + in.ts.Print(args[0].(*Term))
		}
		var cell Value = &Opaque{Kind: "os.File", Data: &fileHandle{f: in.fileByName(name)}}
		return Tuple{Ptr(&cell), Iface{}}
	})
	r("(*os.File).Seek", func(in *Interp, caller *frame, fn *ssa.Function, args []Value) Value {
		h := handleOf(in, args[0])
		off, ok := cint(args[1])
		wh, ok2 := cint(args[2])
		if ok && ok2 && off == 0 && wh == 0 {
			h.pos, h.partial = 0, false
			return Tuple{in.ts.BV(64, 0), Iface{}}
		}
		if !ok2 || wh != 0 {
			panic(unsupported("os.File.Seek with whence != io.SeekStart"))
		}
		// absolute byte offset: find the line it falls into (case split over the lines written so far)
		ts := in.ts
		offBV := args[1].(*Term)
		offT := ts.SBv2Int(offBV)
		if in.branch(nil, nil, ts.ILt(offT, ts.Int(0))) {
			return Tuple{ts.BV(64, 0), in.newError(ts.Str("seek: invalid argument"))}
		}
		cum := ts.Int(0)
		for j := 0; j <= len(h.f.lines); j++ {
			if in.branch(nil, nil, ts.Eq(offT, cum)) {
				h.pos, h.partial = j, false
				return Tuple{offBV, Iface{}}
			}
			if j == len(h.f.lines) {
				break
			}
			next := ts.IAdd(cum, h.f.lines[j].length)
			if in.branch(nil, nil, ts.ILt(offT, next)) {
				h.pos, h.partial, h.rest = j, true, ts.ISub(next, offT)
				return Tuple{offBV, Iface{}}
			}
			cum = next
		}
		h.pos, h.partial = len(h.f.lines), false // beyond the end: nothing to read
		return Tuple{offBV, Iface{}}
	})
	r("(*os.File).Write", func(in *Interp, caller *frame, fn *ssa.Function, args []Value) Value {
		h := handleOf(in, args[0])
		data := args[1].(SliceV)
		in.effect("file write " + h.f.name)
		h.f.lines = append(h.f.lines, &fileLine{content: data, length: in.lineLen(data)})
		return Tuple{in.lenTerm(data), Iface{}}
	})
	// os.ReadFile of a modelled file: the content of the last write (dc4bc's result files are written once per operation, at
	// offset 0 without truncation; a longer earlier content would leave a tail behind - outside the model)
	r("os.ReadFile", func(in *Interp, caller *frame, fn *ssa.Function, args []Value) Value {
		name, ok := cstr(args[0])
		if !ok {
			name = "sym:" + in.ts.Print(args[0].(*Term))
		}
		f, _ := in.hooks["file:"+name].(*fileObj)
		if f == nil || len(f.lines) == 0 {
			return Tuple{SliceV{}, in.newError(in.ts.Str("open " + name + ": no such file or directory"))}
		}
		return Tuple{f.lines[len(f.lines)-1].content, Iface{}}
	})
	r("(*os.File).Close", func(in *Interp, caller *frame, fn *ssa.Function, args []Value) Value {
		handleOf(in, args[0]).closed = true
		return Iface{}
	})
	r("os.Remove", func(in *Interp, caller *frame, fn *ssa.Function, args []Value) Value {
		delete(in.hooks, "file:"+mustStr(args[0], "os.Remove"))
		return Iface{}
	})
	r("path/filepath.Join", func(in *Interp, caller *frame, fn *ssa.Function, args []Value) Value {
		var parts []string
		allConc := true
		for _, e := range args[0].(SliceV).A {
			s, ok := cstr(e)
			if !ok {
				allConc = false
				break
			}
			parts = append(parts, s)
		}
		if allConc {
			return in.ts.Str(filepath.Join(parts...))
		}
		var ts []*Term
		for i, e := range args[0].(SliceV).A {
			if i > 0 {
				ts = append(ts, in.ts.Str("/"))
			}
			ts = append(ts, e.(*Term))
		}
		return in.ts.SConcat(ts...)
	})
	r("os.TempDir", func(in *Interp, caller *frame, fn *ssa.Function, args []Value) Value { return in.ts.Str("/tmp") })
	r("os.RemoveAll", func(in *Interp, caller *frame, fn *ssa.Function, args []Value) Value { return Iface{} })
	fprint := func(ln bool) IntrinsicHandler {
		return func(in *Interp, caller *frame, fn *ssa.Function, args []Value) Value {
			w := args[0].(Iface)
			var s *Term
			if fn.Name() == "Fprintf" {
				s = in.sprintf(args[1].(*Term), variadic(args[2]))
			} else {
				s = in.sprint(variadic(args[1]), ln)
			}
			if w.T == nil {
				in.rtPanic("nil io.Writer")
			}
			p, ok := w.V.(Ptr)
			if ok && p != nil {
				if op, ok := (*p).(*Opaque); ok && op.Kind == "os.File" {
					if h, ok := op.Data.(*fileHandle); ok {
						// one atomic append of one line (the text itself must not contain a newline: JSON text never does)
						var content SliceV
						if ln && s.op == OSConcat && len(s.args) >= 2 {
							body := in.ts.SConcat(s.args[:len(s.args)-1]...)
							last := s.args[len(s.args)-1]
							if last.IsConst() && last.s == "\n" {
								content = in.strToBytes(body)
							} else if last.IsConst() && len(last.s) > 0 && last.s[len(last.s)-1] == '\n' {
								content = in.strToBytes(in.ts.SConcat(body, in.ts.Str(last.s[:len(last.s)-1])))
							}
						} else if ln && s.IsConst() && len(s.s) > 0 && s.s[len(s.s)-1] == '\n' {
							content = in.strToBytes(in.ts.Str(s.s[:len(s.s)-1]))
						}
						if content.A == nil && content.Blob == nil {
							if s.IsConst() && s.s == "\n" {
								content = SliceV{A: []Value{}}
							} else {
								panic(unsupported("write to file that is not a single line"))
							}
						}
						in.effect("file append " + h.f.name)
						h.f.lines = append(h.f.lines, &fileLine{content: content, length: in.lineLen(content)})
						return Tuple{in.ts.BvAdd(in.lenTerm(content), in.ts.BV(64, 1)), Iface{}}
					}
				}
			}
			// anything else (stdout, buffers we do not track): printing is a no-op
			return Tuple{in.ts.BV(64, 0), Iface{}}
		}
	}
	r("fmt.Fprintln", fprint(true))
	r("fmt.Fprint", fprint(false))
	r("fmt.Fprintf", fprint(false))

	// bufio.Scanner over a modelled file
	r("bufio.NewScanner", func(in *Interp, caller *frame, fn *ssa.Function, args []Value) Value {
		rd := args[0].(Iface)
		h := handleOf(in, rd.V)
		var cell Value = &Opaque{Kind: "bufio.Scanner", Data: &scannerObj{h: h, maxTok: bufioMaxScanTokenSize}}
		return Ptr(&cell)
	})
	scOf := func(in *Interp, v Value) *scannerObj {
		p := v.(Ptr)
		return (*p).(*Opaque).Data.(*scannerObj)
	}
	r("(*bufio.Scanner).Buffer", func(in *Interp, caller *frame, fn *ssa.Function, args []Value) Value {
		m, ok := cint(args[2])
		if !ok {
			panic(unsupported("Scanner.Buffer symbolic max"))
		}
		scOf(in, args[0]).maxTok = m
		return nil
	})
	r("(*bufio.Scanner).Scan", func(in *Interp, caller *frame, fn *ssa.Function, args []Value) Value {
		sc := scOf(in, args[0])
		if sc.done {
			return in.ts.False()
		}
		h := sc.h
		if h.pos >= len(h.f.lines) {
			sc.done = true
			sc.cur = nil
			return in.ts.False()
		}
		ln := h.f.lines[h.pos]
		if h.partial {
			// the tail of a line: rest bytes of unknown content (it still ends with the line's newline)
			in.opq++
			sym := in.ts.FreshSym(fmt.Sprintf("linetail!%d", in.opq), StrSort)
			in.ts.big[sym.s] = true
			ln = &fileLine{content: SliceV{Blob: in.strBlob(sym)}, length: h.rest}
			h.partial = false
		}
		// the line and its newline must fit the maximum token size
		fits := in.ts.ILt(ln.length, in.ts.Int(sc.maxTok))
		if in.branch(nil, nil, fits) {
			h.pos++
			sc.cur = ln
			return in.ts.True()
		}
		sc.done = true
		sc.cur = nil
		sc.err = in.newError(in.ts.Str("bufio.Scanner: token too long"))
		return in.ts.False()
	})
	r("(*bufio.Scanner).Bytes", func(in *Interp, caller *frame, fn *ssa.Function, args []Value) Value {
		sc := scOf(in, args[0])
		if sc.cur == nil {
			return SliceV{}
		}
		return sc.cur.content
	})
	r("(*bufio.Scanner).Text", func(in *Interp, caller *frame, fn *ssa.Function, args []Value) Value {
		sc := scOf(in, args[0])
		if sc.cur == nil {
			return in.ts.Str("")
		}
		return in.sliceStr(sc.cur.content)
	})
	r("(*bufio.Scanner).Err", func(in *Interp, caller *frame, fn *ssa.Function, args []Value) Value {
		sc := scOf(in, args[0])
		if sc.err == nil {
			return Iface{}
		}
		return sc.err
	})

	// fslock
	r("github.com/juju/fslock.New", func(in *Interp, caller *frame, fn *ssa.Function, args []Value) Value {
		var cell Value = &Opaque{Kind: "fslock", Data: mustStr(args[0], "fslock.New")}
		return Ptr(&cell)
	})
	lockOf := func(in *Interp, v Value) string {
		p := v.(Ptr)
		if p == nil {
			in.rtPanic("nil *fslock.Lock")
		}
		return (*p).(*Opaque).Data.(string)
	}
	r("(*github.com/juju/fslock.Lock).Lock", func(in *Interp, caller *frame, fn *ssa.Function, args []Value) Value {
		in.lockAcquire("fslock:" + lockOf(in, args[0]))
		return Iface{}
	})
	r("(*github.com/juju/fslock.Lock).Unlock", func(in *Interp, caller *frame, fn *ssa.Function, args []Value) Value {
		in.lockRelease("fslock:" + lockOf(in, args[0]))
		return Iface{}
	})

	// LevelDB
	const ldb = "github.com/syndtr/goleveldb/leveldb"
	dbOf := func(in *Interp, v Value) *dbObj {
		p, ok := v.(Ptr)
		if !ok || p == nil {
			in.rtPanic("nil *leveldb.DB")
		}
		return (*p).(*Opaque).Data.(*dbObj)
	}
	notFound := func(in *Interp) Value {
		pk := in.P.byPath[ldb]
		if pk != nil {
			if g, ok := pk.Members["ErrNotFound"].(*ssa.Global); ok {
				return *in.global(g)
			}
		}
		return in.newError(in.ts.Str("leveldb: not found"))
	}
	r(ldb+".OpenFile", func(in *Interp, caller *frame, fn *ssa.Function, args []Value) Value {
		path := args[0].(*Term)
		if path.IsConst() {
			// "<dir>#<anything>" names a byte-for-byte copy of <dir> taken when the process died (harness convention for
			// restarts: natively the directory is copied, here the copy shares the durable content)
			if i := strings.Index(path.s, "#"); i >= 0 {
				path = in.ts.Str(path.s[:i])
			}
		}
		key := "leveldb:" + in.ts.Print(path)
		db, ok := in.hooks[key].(*dbObj)
		if !ok {
			db = &dbObj{path: key, m: NewMap()}
			in.hooks[key] = db
		}
		var cell Value = &Opaque{Kind: "leveldb.DB", Data: db}
		return Tuple{Ptr(&cell), Iface{}}
	})
	strT := types.Typ[types.String]
	r("(*"+ldb+".DB).Get", func(in *Interp, caller *frame, fn *ssa.Function, args []Value) Value {
		db := dbOf(in, args[0])
		in.yield("db.Get", db)
		k := in.sliceStr(args[1].(SliceV))
		e := in.mapFind(db.m, strT, k)
		if e == nil {
			return Tuple{SliceV{}, notFound(in)}
		}
		return Tuple{e.V, Iface{}}
	})
	r("(*"+ldb+".DB).Has", func(in *Interp, caller *frame, fn *ssa.Function, args []Value) Value {
		db := dbOf(in, args[0])
		k := in.sliceStr(args[1].(SliceV))
		return Tuple{in.ts.Bool(in.mapFind(db.m, strT, k) != nil), Iface{}}
	})
	r("(*"+ldb+".DB).Put", func(in *Interp, caller *frame, fn *ssa.Function, args []Value) Value {
		db := dbOf(in, args[0])
		in.yield("db.Put", db)
		k := in.sliceStr(args[1].(SliceV))
		v := args[2].(SliceV)
		if v.Blob == nil {
			v = SliceV{A: append([]Value{}, v.A...)}
		}
		in.mapSet(db.m, strT, k, v)
		in.effect(fmt.Sprintf("db.Put %s", in.show(k)))
		return Iface{}
	})
	r("(*"+ldb+".DB).Delete", func(in *Interp, caller *frame, fn *ssa.Function, args []Value) Value {
		db := dbOf(in, args[0])
		in.yield("db.Delete", db)
		k := in.sliceStr(args[1].(SliceV))
		in.mapDelete(db.m, strT, k)
		in.effect("db.Delete")
		return Iface{}
	})
	// write batches: recorded per *Batch, applied atomically by DB.Write
	type batchOp struct {
		del bool
		k   *Term
		v   SliceV
	}
	batchOf := func(in *Interp, v Value) *[]batchOp {
		p, ok := v.(Ptr)
		if !ok || p == nil {
			in.rtPanic("nil *leveldb.Batch")
		}
		key := fmt.Sprintf("ldbbatch:%p", p)
		b, _ := in.hooks[key].(*[]batchOp)
		if b == nil {
			b = &[]batchOp{}
			in.hooks[key] = b
		}
		return b
	}
	r("(*"+ldb+".Batch).Put", func(in *Interp, caller *frame, fn *ssa.Function, args []Value) Value {
		b := batchOf(in, args[0])
		v := args[2].(SliceV)
		if v.Blob == nil {
			v = SliceV{A: append([]Value{}, v.A...)}
		}
		*b = append(*b, batchOp{k: in.sliceStr(args[1].(SliceV)), v: v})
		return nil
	})
	r("(*"+ldb+".Batch).Delete", func(in *Interp, caller *frame, fn *ssa.Function, args []Value) Value {
		b := batchOf(in, args[0])
		*b = append(*b, batchOp{del: true, k: in.sliceStr(args[1].(SliceV))})
		return nil
	})
	r("(*"+ldb+".Batch).Reset", func(in *Interp, caller *frame, fn *ssa.Function, args []Value) Value {
		b := batchOf(in, args[0])
		*b = nil
		return nil
	})
	r("(*"+ldb+".Batch).Len", func(in *Interp, caller *frame, fn *ssa.Function, args []Value) Value {
		return in.ts.BV(64, uint64(len(*batchOf(in, args[0]))))
	})
	r("(*"+ldb+".DB).Write", func(in *Interp, caller *frame, fn *ssa.Function, args []Value) Value {
		db := dbOf(in, args[0])
		in.yield("db.Write", db)
		if p, ok := args[1].(Ptr); ok && p != nil {
			for _, op := range *batchOf(in, args[1]) {
				if op.del {
					in.mapDelete(db.m, strT, op.k)
				} else {
					in.mapSet(db.m, strT, op.k, op.v)
				}
			}
		}
		in.effect("db.Write")
		return Iface{}
	})
	r("(*"+ldb+".DB).Close", func(in *Interp, caller *frame, fn *ssa.Function, args []Value) Value { return Iface{} })
}

// locks (sequential execution: acquiring a held lock means deadlock => path stops)
func (in *Interp) lockAcquire(name string) {
	in.yield("lock "+name, nil)
	held, _ := in.hooks["lock:"+name].(int)
	if held != 0 && held != in.curThread()+1 {
		in.blockOn(name)
		return
	}
	in.hooks["lock:"+name] = in.curThread() + 1
}

func (in *Interp) lockRelease(name string) {
	in.hooks["lock:"+name] = 0
	in.yield("unlock "+name, nil)
}

func (in *Interp) curThread() int { return 0 }

func (in *Interp) blockOn(name string) { panic(pathDone{"deadlock on " + name}) }
