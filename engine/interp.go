package main

// Symbolic interpreter over go/ssa.

import (
	"fmt"
	"go/constant"
	"go/token"
	"go/types"
	"os"
	"strings"

	"golang.org/x/tools/go/ssa"
)

// ---- abort kinds (engine-level, never caught by interpreted defers) ----

type pathInfeasible struct{}
type pathDone struct{ why string } // vf.Stop etc.
type inconclusive struct{ why string }

// goPanic is an interpreted Go panic travelling up the host stack.
type goPanic struct {
	val   Value  // panic value (Iface) or nil
	msg   string // human-readable
	rt    bool   // run-time error
	stack string
}

type deferred struct {
	fn   Value
	args []Value
	site ssa.Instruction
}

type frame struct {
	in        *Interp
	fn        *ssa.Function
	caller    *frame
	locals    map[ssa.Value]Value
	block     *ssa.BasicBlock
	prev      *ssa.BasicBlock
	defers    []*deferred
	result    Value
	panicking bool
	panic     *goPanic
	forks     map[ssa.Instruction]int
	depth     int
}

type Interp struct {
	P    *Program
	ts   *TermStore
	sol  *Solver
	glob map[*ssa.Global]Ptr
	pc   []*Term

	// forking by re-execution
	prefix  []int
	taken   []int
	pending [][]int

	steps    int
	maxSteps int
	unwind   int
	permute  bool

	res          *PathResult
	params       map[string]string
	opq          int // opaque / blob counter
	funcs        map[string]bool
	cur          *frame
	choices      map[string]int
	nowCnt       int
	firstNow *Term
	lastNow      *Term
	hooks        map[string]interface{} // per-path engine state for intrinsics
	injUFs       map[string]bool
	blobs        []*Blob
	trace        bool
	foreignErr   map[*ssa.Global]bool
	looseEq      bool
	reverse      bool
	known        map[*Term]bool
	lb, ub       map[*Term]int64
	axDone       map[int]bool
	blobDistinct bool
	blobOfStr    map[*Term]*Blob
	pinned       map[*Term]uint64 // terms whose value is fixed on this path by a value case-split
	altTerms     map[*Term]bool   // primed copies made by vf.NoLeak (excluded from injectivity axioms)
}

func (in *Interp) addPC(t *Term) {
	if t.IsConst() {
		if !t.BoolVal() {
			panic(pathInfeasible{})
		}
		return
	}
	in.pc = append(in.pc, t)
	in.sol.Assert(t)
	in.learn(t, true)
}

// learn records facts implied syntactically by the path condition (atoms and integer bounds), so that repeated
// branch conditions are decided without a solver call.
func (in *Interp) learn(t *Term, v bool) {
	if in.known == nil {
		in.known = map[*Term]bool{}
		in.lb = map[*Term]int64{}
		in.ub = map[*Term]int64{}
	}
	switch t.op {
	case ONot:
		in.learn(t.args[0], !v)
		return
	case OAnd:
		if v {
			for _, a := range t.args {
				in.learn(a, true)
			}
			return
		}
	case OOr:
		if !v {
			for _, a := range t.args {
				in.learn(a, false)
			}
			return
		}
	}
	in.known[t] = v
	setLB := func(x *Term, c int64) {
		if old, ok := in.lb[x]; !ok || c > old {
			in.lb[x] = c
		}
	}
	setUB := func(x *Term, c int64) {
		if old, ok := in.ub[x]; !ok || c < old {
			in.ub[x] = c
		}
	}
	if t.op == OILe || t.op == OILt {
		a, b := t.args[0], t.args[1]
		strict := int64(0)
		if t.op == OILt {
			strict = 1
		}
		if v {
			if a.IsConst() {
				setLB(b, a.i+strict)
			}
			if b.IsConst() {
				setUB(a, b.i-strict)
			}
		} else { // not(a <= b) == b < a ; not(a < b) == b <= a
			if b.IsConst() {
				setLB(a, b.i+1-strict)
			}
			if a.IsConst() {
				setUB(b, a.i-1+strict)
			}
		}
	}
}

// decided returns (value, true) when the condition follows syntactically from recorded facts.
func (in *Interp) decided(c *Term) (bool, bool) {
	if in.known == nil {
		return false, false
	}
	if v, ok := in.known[c]; ok {
		return v, true
	}
	switch c.op {
	case ONot:
		if v, ok := in.decided(c.args[0]); ok {
			return !v, true
		}
	case OILe, OILt:
		a, b := c.args[0], c.args[1]
		strict := int64(0)
		if c.op == OILt {
			strict = 1
		}
		if a.IsConst() {
			if lb, ok := in.lb[b]; ok && a.i+strict <= lb {
				return true, true
			}
			if ub, ok := in.ub[b]; ok && ub < a.i+strict {
				return false, true
			}
		}
		if b.IsConst() {
			if ub, ok := in.ub[a]; ok && ub <= b.i-strict {
				return true, true
			}
			if lb, ok := in.lb[a]; ok && lb > b.i-strict {
				return false, true
			}
		}
	}
	return false, false
}

// feasible checks pc ∧ extra.
func (in *Interp) feasible(extra ...*Term) SatResult {
	for _, e := range extra {
		if e.IsConst() && !e.BoolVal() {
			return Unsat
		}
	}
	r, _ := in.sol.Check(append(in.axioms(), extra...), false)
	return r
}

// fork: alts are mutually exclusive, jointly exhaustive conditions. Returns the alternative taken on this path.
func (in *Interp) fork(kind string, alts []*Term) int {
	// constant shortcut
	for i, a := range alts {
		if a.IsConst() && a.BoolVal() {
			return i
		}
	}
	pos := len(in.taken)
	if pos < len(in.prefix) {
		i := in.prefix[pos]
		in.taken = append(in.taken, i)
		in.addPC(alts[i])
		return i
	}
	if os.Getenv("GOSX_FORKLOG") != "" {
		fmt.Fprintf(os.Stderr, "FORK %s at %s\n", kind, in.stack())
	}
	var feas []int
	for i, a := range alts {
		if a.IsConst() && !a.BoolVal() {
			continue
		}
		if len(alts) == 2 && i == 1 && len(feas) == 0 {
			// first infeasible => second implied by exhaustiveness (if pc itself is feasible)
			feas = append(feas, i)
			break
		}
		switch in.feasible(a) {
		case Sat:
			feas = append(feas, i)
		case Unknown:
			feas = append(feas, i)
			in.res.note("solver unknown at fork " + kind + " (kept feasible)")
			in.res.Inconclusive = true
		}
	}
	if len(feas) == 0 {
		panic(pathInfeasible{})
	}
	for _, j := range feas[1:] {
		np := append(append([]int(nil), in.taken...), j)
		in.pending = append(in.pending, np)
	}
	i := feas[0]
	in.taken = append(in.taken, i)
	in.addPC(alts[i])
	return i
}

// choice: unconditional n-way choice point (all alternatives explored).
func (in *Interp) choice(n int) int {
	if n <= 1 {
		return 0
	}
	if os.Getenv("GOSX_FORKLOG") != "" && len(in.taken) >= len(in.prefix) {
		fmt.Fprintf(os.Stderr, "CHOICE n=%d at %s\n", n, in.stack())
	}
	pos := len(in.taken)
	if pos < len(in.prefix) {
		i := in.prefix[pos]
		in.taken = append(in.taken, i)
		return i
	}
	for j := 1; j < n; j++ {
		np := append(append([]int(nil), in.taken...), j)
		in.pending = append(in.pending, np)
	}
	in.taken = append(in.taken, 0)
	return 0
}

// forkValues enumerates the feasible concrete values of a bit-vector term (up to limit) and case-splits.
func (in *Interp) forkValues(t *Term, limit int) uint64 {
	if t.IsConst() {
		return t.u
	}
	pos := len(in.taken)
	if pos < len(in.prefix) {
		v := uint64(in.prefix[pos])
		in.taken = append(in.taken, int(v))
		in.addPC(in.ts.Eq(t, in.ts.BV(t.sort.W, v)))
		in.pin(t, v)
		return v
	}
	var vals []uint64
	var excl []*Term
	tmp := in.ts.FreshSym("$enum", t.sort)
	for {
		q := append([]*Term{in.ts.Eq(tmp, t)}, excl...)
		r, m := in.sol.Check(append(in.axioms(), q...), true)
		if r == Unsat {
			break
		}
		if r == Unknown {
			panic(inconclusive{"solver unknown while enumerating values"})
		}
		mv, ok := m[tmp.s]
		if !ok {
			panic(inconclusive{"no model value while enumerating"})
		}
		vals = append(vals, mv.U)
		excl = append(excl, in.ts.Not(in.ts.Eq(t, in.ts.BV(t.sort.W, mv.U))))
		if len(vals) > limit {
			panic(inconclusive{fmt.Sprintf("more than %d feasible values for a symbolic index/length", limit)})
		}
	}
	if len(vals) == 0 {
		panic(pathInfeasible{})
	}
	for _, v := range vals[1:] {
		np := append(append([]int(nil), in.taken...), int(v))
		in.pending = append(in.pending, np)
	}
	in.taken = append(in.taken, int(vals[0]))
	in.addPC(in.ts.Eq(t, in.ts.BV(t.sort.W, vals[0])))
	in.pin(t, vals[0])
	return vals[0]
}

func (in *Interp) pin(t *Term, v uint64) {
	if in.pinned == nil {
		in.pinned = map[*Term]uint64{}
	}
	in.pinned[t] = v
	// sign-extended views of the same term are pinned too
	if t.op == OSext || t.op == OZext {
		in.pinned[t.args[0]] = v & mask(t.args[0].sort.W)
	}
}

// pinnedConst returns the constant a term is known to equal on this path, if any.
func (in *Interp) pinnedConst(t *Term) *Term {
	if t.IsConst() {
		return t
	}
	if v, ok := in.pinned[t]; ok {
		return in.ts.BV(t.sort.W, v)
	}
	return nil
}

func (in *Interp) branch(fr *frame, site ssa.Instruction, c *Term) bool {
	if c.IsConst() {
		return c.BoolVal()
	}
	if v, ok := in.decided(c); ok {
		return v
	}
	if fr != nil && site != nil {
		if fr.forks == nil {
			fr.forks = map[ssa.Instruction]int{}
		}
		fr.forks[site]++
		if fr.forks[site] > in.unwind {
			panic(inconclusive{fmt.Sprintf("unwinding cap %d hit at %s", in.unwind, in.P.prog.Fset.Position(site.Pos()))})
		}
	}
	if os.Getenv("GOSX_BRANCHLOG") != "" && len(in.taken) >= len(in.prefix) {
		where := ""
		if site != nil {
			where = in.P.prog.Fset.Position(site.Pos()).String()
		}
		cs := in.ts.Print(c)
		if len(cs) > 300 {
			cs = cs[:300]
		}
		fmt.Fprintf(os.Stderr, "BRANCH %s %s :: %s\n", where, in.stack(), cs)
	}
	return in.fork("if", []*Term{c, in.ts.Not(c)}) == 0
}

// ---- run-time panics ----

func (in *Interp) rtPanic(msg string) {
	panic(&goPanic{msg: "runtime error: " + msg, rt: true, stack: in.stack()})
}

func (in *Interp) stack() string {
	var sb strings.Builder
	n := 0
	for f := in.cur; f != nil && n < 12; f = f.caller {
		sb.WriteString(f.fn.String())
		sb.WriteString(" <- ")
		n++
	}
	return sb.String()
}

// ---- values of operands ----

func (in *Interp) constValue(c *ssa.Const) Value {
	t := c.Type()
	if c.Value == nil {
		return in.zero(t)
	}
	if b, ok := t.Underlying().(*types.Basic); ok {
		switch {
		case b.Info()&types.IsBoolean != 0:
			return in.ts.Bool(constant.BoolVal(c.Value))
		case b.Info()&types.IsInteger != 0:
			w, signed := intWidth(b)
			if signed {
				v, _ := constant.Int64Val(constant.ToInt(c.Value))
				return in.ts.BV(w, uint64(v))
			}
			v, _ := constant.Uint64Val(constant.ToInt(c.Value))
			return in.ts.BV(w, v)
		case b.Info()&types.IsString != 0:
			if c.Value.Kind() == constant.String {
				return in.ts.Str(constant.StringVal(c.Value))
			}
			// conversion of an int constant to string
			v, _ := constant.Int64Val(constant.ToInt(c.Value))
			return in.ts.Str(string(rune(v)))
		case b.Info()&types.IsFloat != 0:
			f, _ := constant.Float64Val(c.Value)
			return f
		}
	}
	// type parameters / interfaces holding constants
	if _, ok := t.Underlying().(*types.Interface); ok {
		panic(unsupported("constant of interface type"))
	}
	panic(unsupported("constant of type " + t.String()))
}

func (in *Interp) get(fr *frame, v ssa.Value) Value {
	switch x := v.(type) {
	case *ssa.Const:
		return in.constValue(x)
	case *ssa.Global:
		return in.global(x)
	case *ssa.Function:
		return x
	case *ssa.Builtin:
		return x
	case nil:
		return nil
	}
	r, ok := fr.locals[v]
	if !ok {
		panic(fmt.Sprintf("get: no value for %s in %s", v.Name(), fr.fn))
	}
	return r
}

func (in *Interp) global(g *ssa.Global) Ptr {
	if p, ok := in.glob[g]; ok {
		return p
	}
	cell := new(Value)
	et := g.Type().(*types.Pointer).Elem()
	*cell = in.zero(et)
	in.glob[g] = cell
	if g.Pkg != nil {
		if data, ok := in.P.embeds[g.Pkg.Pkg.Path()+"."+g.Name()]; ok {
			if _, isStr := (*cell).(*Term); isStr {
				*cell = in.ts.Str(data)
			} else {
				*cell = in.mkBytes([]byte(data))
			}
		}
	}
	if g.Pkg != nil && !in.P.isOwn(g.Pkg.Pkg.Path()) {
		in.initForeignGlobal(g, cell, et)
	}
	return cell
}

// ---- calls ----

func (in *Interp) callValue(fr *frame, fn Value, args []Value, site ssa.Instruction) Value {
	switch f := fn.(type) {
	case *ssa.Function:
		return in.callFunc(fr, f, args, nil, site)
	case *Closure:
		if f == nil {
			in.rtPanic("invalid memory address or nil pointer dereference (nil func)")
		}
		return in.callFunc(fr, f.Fn, args, f.Env, site)
	case *ssa.Builtin:
		return in.callBuiltin(fr, f, args, site)
	case *IntrinsicFn:
		return f.Fn(in, args)
	case nil:
		in.rtPanic("invalid memory address or nil pointer dereference (nil func)")
	}
	panic(unsupported(fmt.Sprintf("call of %T", fn)))
}

func (in *Interp) callFunc(caller *frame, fn *ssa.Function, args []Value, env []Value, site ssa.Instruction) Value {
	if h := in.P.intrinsic(fn); h != nil {
		in.funcsSeen("intrinsic:" + fn.String())
		return h(in, caller, fn, args)
	}
	if fn.Blocks == nil {
		panic(unsupported("external function without body: " + fn.String()))
	}
	if !in.P.interpretable(fn) {
		panic(unsupported("no model for library function: " + fn.String()))
	}
	in.funcsSeen(fn.String())
	fr := &frame{in: in, fn: fn, caller: caller, locals: make(map[ssa.Value]Value, 16)}
	if caller != nil {
		fr.depth = caller.depth + 1
		if fr.depth > 400 {
			panic(inconclusive{"call depth > 400"})
		}
	}
	for i, p := range fn.Params {
		fr.locals[p] = args[i]
	}
	for i, fv := range fn.FreeVars {
		fr.locals[fv] = env[i]
	}
	fr.block = fn.Blocks[0]
	saved := in.cur
	in.cur = fr
	for fr.block != nil {
		in.runFrame(fr)
	}
	in.cur = saved
	if fr.panicking {
		panic(fr.panic)
	}
	return fr.result
}

func (in *Interp) funcsSeen(name string) {
	if in.funcs != nil {
		in.funcs[name] = true
	}
}

func (in *Interp) runFrame(fr *frame) {
	defer func() {
		if fr.block == nil {
			return // normal return
		}
		r := recover()
		gp, ok := r.(*goPanic)
		if !ok {
			panic(r) // engine abort: propagate untouched
		}
		in.cur = fr
		fr.panicking = true
		fr.panic = gp
		in.runDefers(fr)
		fr.block = fr.fn.Recover
		if fr.panicking {
			fr.block = nil
		}
	}()
	for {
		if in.trace {
			fmt.Fprintf(os.Stderr, ".%s %d\n", fr.fn, fr.block.Index)
		}
	instrs:
		for _, instr := range fr.block.Instrs {
			in.steps++
			if in.steps > in.maxSteps {
				panic(inconclusive{"step budget exhausted"})
			}
			switch in.visit(fr, instr) {
			case kReturn:
				return
			case kNext:
			case kJump:
				break instrs
			}
		}
	}
}

func (in *Interp) runDefers(fr *frame) {
	for len(fr.defers) > 0 {
		d := fr.defers[len(fr.defers)-1]
		fr.defers = fr.defers[:len(fr.defers)-1]
		in.runDefer(fr, d)
	}
}

func (in *Interp) runDefer(fr *frame, d *deferred) {
	ok := false
	defer func() {
		if !ok {
			r := recover()
			gp, isGo := r.(*goPanic)
			if !isGo {
				panic(r)
			}
			fr.panicking = true
			fr.panic = gp
		}
	}()
	in.callValue(fr, d.fn, d.args, d.site)
	ok = true
}

type cont int

const (
	kNext cont = iota
	kReturn
	kJump
)

func (in *Interp) prepareCall(fr *frame, call *ssa.CallCommon) (Value, []Value) {
	var fn Value
	var args []Value
	if call.Method == nil {
		fn = in.get(fr, call.Value)
	} else {
		recv, ok := in.get(fr, call.Value).(Iface)
		if !ok {
			panic(fmt.Sprintf("invoke on non-interface %T", in.get(fr, call.Value)))
		}
		if recv.T == nil {
			in.rtPanic("invalid memory address or nil pointer dereference (method call on nil interface)")
		}
		if op, ok := recv.V.(*Opaque); ok {
			name := call.Method.Name()
			fn = &IntrinsicFn{Name: op.Kind + "." + name, Fn: func(in *Interp, a []Value) Value {
				return in.opaqueMethod(op, name, a[1:])
			}}
		} else {
			m := in.P.prog.LookupMethod(recv.T, call.Method.Pkg(), call.Method.Name())
			if m == nil {
				panic(unsupported(fmt.Sprintf("no method %s on %s", call.Method.Name(), recv.T)))
			}
			fn = m
		}
		args = append(args, recv.V)
	}
	for _, a := range call.Args {
		args = append(args, in.get(fr, a))
	}
	return fn, args
}

func (in *Interp) visit(fr *frame, instr ssa.Instruction) cont {
	switch x := instr.(type) {
	case *ssa.DebugRef:
	case *ssa.UnOp:
		fr.locals[x] = in.unop(fr, x)
	case *ssa.BinOp:
		fr.locals[x] = in.binop(x.Op, x.X.Type(), in.get(fr, x.X), in.get(fr, x.Y), x.Y.Type())
	case *ssa.Call:
		fn, args := in.prepareCall(fr, &x.Call)
		fr.locals[x] = in.callValue(fr, fn, args, x)
		in.cur = fr
	case *ssa.ChangeInterface:
		fr.locals[x] = in.get(fr, x.X)
	case *ssa.ChangeType:
		fr.locals[x] = in.get(fr, x.X)
	case *ssa.Convert:
		fr.locals[x] = in.conv(x.Type(), x.X.Type(), in.get(fr, x.X))
	case *ssa.MultiConvert:
		fr.locals[x] = in.conv(x.Type(), x.X.Type(), in.get(fr, x.X))
	case *ssa.SliceToArrayPointer:
		s := in.get(fr, x.X).(SliceV)
		n := int(x.Type().(*types.Pointer).Elem().Underlying().(*types.Array).Len())
		if len(s.A) < n {
			in.rtPanic("cannot convert slice to array pointer: length too short")
		}
		if s.A == nil {
			fr.locals[x] = Ptr(nil)
		} else {
			var cell Value = Array(s.A[:n:n])
			fr.locals[x] = &cell
		}
	case *ssa.MakeInterface:
		fr.locals[x] = Iface{T: x.X.Type(), V: in.get(fr, x.X)}
	case *ssa.Extract:
		fr.locals[x] = in.get(fr, x.Tuple).(Tuple)[x.Index]
	case *ssa.Slice:
		fr.locals[x] = in.sliceOp(fr, x)
	case *ssa.Return:
		switch len(x.Results) {
		case 0:
		case 1:
			fr.result = in.get(fr, x.Results[0])
		default:
			res := make(Tuple, len(x.Results))
			for i, r := range x.Results {
				res[i] = in.get(fr, r)
			}
			fr.result = res
		}
		fr.block = nil
		return kReturn
	case *ssa.RunDefers:
		in.runDefers(fr)
		if fr.panicking {
			panic(fr.panic)
		}
	case *ssa.Panic:
		v := in.get(fr, x.X)
		panic(&goPanic{val: v, msg: in.panicString(v), stack: in.stack()})
	case *ssa.Send:
		ch := in.get(fr, x.Chan).(*ChanV)
		if ch == nil {
			panic(unsupported("send on nil channel"))
		}
		if ch.Closed {
			panic(&goPanic{msg: "send on closed channel", stack: in.stack()})
		}
		ch.Buf = append(ch.Buf, in.get(fr, x.X))
		in.gprogress()
	case *ssa.Store:
		p := in.get(fr, x.Addr).(Ptr)
		if p == nil {
			in.rtPanic("invalid memory address or nil pointer dereference (store)")
		}
		storeVal(p, in.get(fr, x.Val))
	case *ssa.If:
		c := in.get(fr, x.Cond).(*Term)
		succ := 1
		if in.branch(fr, x, c) {
			succ = 0
		}
		fr.prev, fr.block = fr.block, fr.block.Succs[succ]
		return kJump
	case *ssa.Jump:
		fr.prev, fr.block = fr.block, fr.block.Succs[0]
		return kJump
	case *ssa.Defer:
		fn, args := in.prepareCall(fr, &x.Call)
		fr.defers = append(fr.defers, &deferred{fn: fn, args: args, site: x})
	case *ssa.Go:
		fn, args := in.prepareCall(fr, &x.Call)
		in.goStmt(fr, fn, args, x)
	case *ssa.MakeChan:
		fr.locals[x] = &ChanV{Kind: "plain"}
	case *ssa.Alloc:
		cell := new(Value)
		*cell = in.zero(x.Type().(*types.Pointer).Elem())
		fr.locals[x] = cell
	case *ssa.MakeSlice:
		lt := in.ts.Sext(64, in.get(fr, x.Len).(*Term))
		ct := in.ts.Sext(64, in.get(fr, x.Cap).(*Term))
		if !lt.IsConst() || !ct.IsConst() {
			// run-time check of makeslice: 0 <= len <= cap and the allocation must be possible (we take 2^40
			// elements as "cannot be allocated": the process dies with a panic or out of memory)
			ok := in.ts.And(in.ts.BvSle(in.ts.BV(64, 0), lt), in.ts.BvSle(lt, ct), in.ts.BvSlt(ct, in.ts.BV(64, 1<<40)))
			if !in.branch(fr, x, ok) {
				in.rtPanic("makeslice: len/cap out of range (or allocation too large)")
			}
		}
		n := in.concreteInt(lt, "make len")
		c := n
		if ct.IsConst() {
			c = int(ct.SVal())
		} // a symbolic capacity only matters for aliasing of later appends: modelled as cap = len
		if n < 0 || c < n || c > 1<<26 {
			in.rtPanic("makeslice: len out of range")
		}
		et := x.Type().Underlying().(*types.Slice).Elem()
		a := make([]Value, n, c)
		for i := range a {
			a[i] = in.zero(et)
		}
		fr.locals[x] = SliceV{A: a}
	case *ssa.MakeMap:
		fr.locals[x] = NewMap()
	case *ssa.Range:
		fr.locals[x] = in.rangeIter(in.get(fr, x.X))
	case *ssa.Next:
		fr.locals[x] = in.next(fr, x)
	case *ssa.FieldAddr:
		p := in.get(fr, x.X).(Ptr)
		if p == nil {
			in.rtPanic("invalid memory address or nil pointer dereference (field " + fieldName(x.X.Type(), x.Field) + ")")
		}
		if op, isOp := (*p).(*Opaque); isOp && op.Kind == "kyber.verifier" && fieldName(x.X.Type(), x.Field) == "Aggregator" {
			// vss.Verifier embeds *Aggregator: hand out the modelled aggregator of this verifier
			var agg Value = &Opaque{Kind: "kyber.aggregator", Data: op.Data}
			var cell Value = Ptr(&agg)
			fr.locals[x] = Ptr(&cell)
			break
		}
		s, ok := (*p).(Struct)
		if !ok {
			panic(unsupported(fmt.Sprintf("FieldAddr on %T (%s) in %s", *p, x.X.Type(), fr.fn)))
		}
		fr.locals[x] = &s[x.Field]
	case *ssa.Field:
		s, ok := in.get(fr, x.X).(Struct)
		if !ok {
			panic(unsupported(fmt.Sprintf("Field on %T (%s)", in.get(fr, x.X), x.X.Type())))
		}
		fr.locals[x] = copyVal(s[x.Field])
	case *ssa.IndexAddr:
		fr.locals[x] = in.indexAddr(fr, x)
	case *ssa.Index:
		fr.locals[x] = in.index(fr, x)
	case *ssa.Lookup:
		fr.locals[x] = in.lookup(fr, x)
	case *ssa.MapUpdate:
		m := in.get(fr, x.Map).(*MapV)
		if m == nil {
			in.rtPanic("assignment to entry in nil map")
		}
		kt := x.Map.Type().Underlying().(*types.Map).Key()
		in.mapSet(m, kt, in.get(fr, x.Key), in.get(fr, x.Value))
	case *ssa.TypeAssert:
		fr.locals[x] = in.typeAssert(x, in.get(fr, x.X).(Iface))
	case *ssa.MakeClosure:
		var env []Value
		for _, b := range x.Bindings {
			env = append(env, in.get(fr, b))
		}
		fr.locals[x] = &Closure{Fn: x.Fn.(*ssa.Function), Env: env}
	case *ssa.Phi:
		for i, pred := range x.Block().Preds {
			if fr.prev == pred {
				fr.locals[x] = in.get(fr, x.Edges[i])
				break
			}
		}
	case *ssa.Select:
		fr.locals[x] = in.selectStmt(fr, x)
	default:
		panic(unsupported(fmt.Sprintf("instruction %T", instr)))
	}
	return kNext
}

func fieldName(t types.Type, i int) string {
	if p, ok := t.Underlying().(*types.Pointer); ok {
		if s, ok := p.Elem().Underlying().(*types.Struct); ok && i < s.NumFields() {
			return s.Field(i).Name()
		}
	}
	return fmt.Sprint(i)
}

func (in *Interp) panicString(v Value) string {
	if i, ok := v.(Iface); ok {
		if i.T == nil {
			return "panic(nil)"
		}
		if t, ok := i.V.(*Term); ok {
			if t.IsConst() && t.sort.K == SStr {
				return "panic: " + t.s
			}
			return "panic: <symbolic>"
		}
		return "panic: value of type " + i.T.String()
	}
	return fmt.Sprintf("panic: %T", v)
}

// concreteInt returns the concrete signed value of t, enumerating feasible values if symbolic.
func (in *Interp) concreteInt(t *Term, what string) int {
	if t.IsConst() {
		return int(t.SVal())
	}
	v := in.forkValues(t, 64)
	return int(sext64(v, t.sort.W))
}

// ---- unary / binary ops ----

func (in *Interp) unop(fr *frame, x *ssa.UnOp) Value {
	v := in.get(fr, x.X)
	switch x.Op {
	case token.MUL: // load
		p, ok := v.(Ptr)
		if !ok {
			panic(unsupported(fmt.Sprintf("load through %T", v)))
		}
		if p == nil {
			in.rtPanic("invalid memory address or nil pointer dereference (load " + x.X.Type().String() + ")")
		}
		return copyVal(*p)
	case token.NOT:
		return in.ts.Not(v.(*Term))
	case token.SUB:
		if f, ok := v.(float64); ok {
			return -f
		}
		return in.ts.BvNeg(v.(*Term))
	case token.XOR:
		return in.ts.BvNot(v.(*Term))
	case token.ARROW:
		ch := v.(*ChanV)
		if ch == nil {
			panic(unsupported("receive from nil channel"))
		}
		var val Value
		ok := false
		for len(ch.Buf) == 0 && !ch.Closed {
			in.gwait("channel receive")
		}
		if len(ch.Buf) > 0 {
			val = ch.Buf[0]
			ch.Buf = ch.Buf[1:]
			ok = true
		} else {
			val = in.zero(x.X.Type().Underlying().(*types.Chan).Elem())
		}
		if x.CommaOk {
			return Tuple{val, in.ts.Bool(ok)}
		}
		return val
	}
	panic(unsupported("unop " + x.Op.String()))
}

func (in *Interp) binop(op token.Token, xt types.Type, x, y Value, yt types.Type) Value {
	ts := in.ts
	switch op {
	case token.EQL:
		return in.eqVal(xt, x, y)
	case token.NEQ:
		return ts.Not(in.eqVal(xt, x, y))
	}
	if fx, ok := x.(float64); ok {
		fy := y.(float64)
		switch op {
		case token.ADD:
			return fx + fy
		case token.SUB:
			return fx - fy
		case token.MUL:
			return fx * fy
		case token.QUO:
			return fx / fy
		case token.LSS:
			return ts.Bool(fx < fy)
		case token.LEQ:
			return ts.Bool(fx <= fy)
		case token.GTR:
			return ts.Bool(fx > fy)
		case token.GEQ:
			return ts.Bool(fx >= fy)
		}
		panic(unsupported("float binop " + op.String()))
	}
	a, ok1 := x.(*Term)
	b, ok2 := y.(*Term)
	if !ok1 || !ok2 {
		panic(unsupported(fmt.Sprintf("binop %s on %T,%T", op, x, y)))
	}
	if a.sort.K == SStr {
		switch op {
		case token.ADD:
			return ts.SConcat(a, b)
		case token.LSS, token.LEQ, token.GTR, token.GEQ:
			if a.IsConst() && b.IsConst() {
				switch op {
				case token.LSS:
					return ts.Bool(a.s < b.s)
				case token.LEQ:
					return ts.Bool(a.s <= b.s)
				case token.GTR:
					return ts.Bool(a.s > b.s)
				case token.GEQ:
					return ts.Bool(a.s >= b.s)
				}
			}
			switch op {
			case token.LSS:
				return ts.StrLt(a, b)
			case token.GTR:
				return ts.StrLt(b, a)
			case token.LEQ:
				return ts.Not(ts.StrLt(b, a))
			default:
				return ts.Not(ts.StrLt(a, b))
			}
		}
		panic(unsupported("string binop " + op.String()))
	}
	if a.sort.K == SBool {
		switch op {
		case token.AND, token.LAND:
			return ts.And(a, b)
		case token.OR, token.LOR:
			return ts.Or(a, b)
		}
		panic(unsupported("bool binop " + op.String()))
	}
	_, signed, _ := isIntType(xt)
	w := a.sort.W
	switch op {
	case token.ADD:
		return ts.BvAdd(a, b)
	case token.SUB:
		return ts.BvSub(a, b)
	case token.MUL:
		return ts.BvMul(a, b)
	case token.QUO, token.REM:
		zero := ts.Eq(b, ts.BV(w, 0))
		if in.branch(nil, nil, zero) {
			in.rtPanic("integer divide by zero")
		}
		if op == token.QUO {
			if signed {
				return ts.BvSDiv(a, b)
			}
			return ts.BvUDiv(a, b)
		}
		if signed {
			return ts.BvSRem(a, b)
		}
		return ts.BvURem(a, b)
	case token.AND:
		return ts.BvAnd(a, b)
	case token.OR:
		return ts.BvOr(a, b)
	case token.XOR:
		return ts.BvXor(a, b)
	case token.AND_NOT:
		return ts.BvAnd(a, ts.BvNot(b))
	case token.SHL, token.SHR:
		// normalise shift count to width w (unsigned saturating)
		bw := b.sort.W
		var cnt *Term
		var over *Term = ts.False()
		if bw > w {
			over = ts.Not(ts.BvUlt(b, ts.BV(bw, uint64(w))))
			cnt = ts.Extract(w-1, 0, b)
		} else {
			cnt = ts.Zext(w, b)
		}
		var r *Term
		if op == token.SHL {
			r = ts.BvShl(a, cnt)
			return ts.Ite(over, ts.BV(w, 0), r)
		}
		if signed {
			r = ts.BvAshr(a, cnt)
			return ts.Ite(over, ts.BvAshr(a, ts.BV(w, uint64(w-1))), r)
		}
		r = ts.BvLshr(a, cnt)
		return ts.Ite(over, ts.BV(w, 0), r)
	case token.LSS:
		if signed {
			return ts.BvSlt(a, b)
		}
		return ts.BvUlt(a, b)
	case token.LEQ:
		if signed {
			return ts.BvSle(a, b)
		}
		return ts.BvUle(a, b)
	case token.GTR:
		if signed {
			return ts.BvSlt(b, a)
		}
		return ts.BvUlt(b, a)
	case token.GEQ:
		if signed {
			return ts.BvSle(b, a)
		}
		return ts.BvUle(b, a)
	}
	panic(unsupported("binop " + op.String()))
}

// ---- conversions ----

func (in *Interp) conv(dst, src types.Type, v Value) Value {
	ts := in.ts
	du, su := dst.Underlying(), src.Underlying()
	// type params: use core types as-is
	switch d := du.(type) {
	case *types.Basic:
		if dw, _ := intWidth(d); dw != 0 {
			switch s := v.(type) {
			case *Term:
				if s.sort.K == SBV {
					_, ssigned, _ := isIntType(src)
					if ssigned {
						return ts.Sext(dw, s)
					}
					return ts.Zext(dw, s)
				}
			case float64:
				_, dsigned := intWidth(d)
				if dsigned {
					return ts.BV(dw, uint64(int64(s)))
				}
				return ts.BV(dw, uint64(s))
			case Ptr:
				if s == nil {
					return ts.BV(dw, 0)
				}
			}
			panic(unsupported(fmt.Sprintf("convert %T (%s) to %s", v, src, dst)))
		}
		if d.Info()&types.IsFloat != 0 {
			switch s := v.(type) {
			case float64:
				if d.Kind() == types.Float32 {
					return float64(float32(s))
				}
				return s
			case *Term:
				if s.IsConst() {
					_, ssigned, _ := isIntType(src)
					if ssigned {
						return float64(s.SVal())
					}
					return float64(s.u)
				}
			}
			panic(unsupported("symbolic int to float"))
		}
		if d.Info()&types.IsString != 0 {
			switch s := v.(type) {
			case *Term:
				if s.sort.K == SStr {
					return s
				}
				// int -> string (rune)
				if s.IsConst() {
					return ts.Str(string(rune(s.SVal())))
				}
				panic(unsupported("symbolic rune to string"))
			case SliceV:
				// []byte or []rune -> string
				if sl, ok := su.(*types.Slice); ok {
					if b, ok := sl.Elem().Underlying().(*types.Basic); ok && b.Kind() == types.Int32 {
						rs := make([]rune, len(s.A))
						for i, e := range s.A {
							t := e.(*Term)
							if !t.IsConst() {
								panic(unsupported("symbolic []rune to string"))
							}
							rs[i] = rune(t.SVal())
						}
						return ts.Str(string(rs))
					}
				}
				return in.sliceStr(s)
			}
		}
		if d.Kind() == types.UnsafePointer {
			return v
		}
	case *types.Slice:
		// string -> []byte / []rune
		if s, ok := v.(*Term); ok && s.sort.K == SStr {
			eb := d.Elem().Underlying().(*types.Basic)
			if eb.Kind() == types.Int32 {
				if !s.IsConst() {
					panic(unsupported("symbolic string to []rune"))
				}
				rs := []rune(s.s)
				a := make([]Value, len(rs))
				for i, r := range rs {
					a[i] = ts.BV(32, uint64(r))
				}
				return SliceV{A: a}
			}
			return in.strToBytes(s)
		}
		if s, ok := v.(SliceV); ok {
			return s
		}
	case *types.Pointer:
		return v
	}
	panic(unsupported(fmt.Sprintf("convert %s -> %s (%T)", src, dst, v)))
}

func (in *Interp) strToBytes(s *Term) SliceV {
	if s.IsConst() {
		a := make([]Value, len(s.s))
		for i := 0; i < len(s.s); i++ {
			a[i] = in.ts.BV(8, uint64(s.s[i]))
		}
		return SliceV{A: a}
	}
	if b, ok := in.blobOfStr[s]; ok {
		return SliceV{Blob: b}
	}
	return SliceV{Blob: in.strBlob(s)}
}

func (in *Interp) strBlob(s *Term) *Blob {
	in.opq++
	return &Blob{ID: in.opq, Str: s}
}

// ---- slicing / indexing ----

func (in *Interp) lenTerm(v Value) *Term {
	ts := in.ts
	switch x := v.(type) {
	case SliceV:
		if x.Blob != nil {
			return ts.Int2Bv(64, ts.SLen(in.blobStr(x.Blob)))
		}
		return ts.BV(64, uint64(len(x.A)))
	case *Term:
		if x.sort.K == SStr {
			if x.IsConst() {
				return ts.BV(64, uint64(len(x.s)))
			}
			return ts.Int2Bv(64, ts.SLen(x))
		}
	case *MapV:
		if x == nil {
			return ts.BV(64, 0)
		}
		return ts.BV(64, uint64(len(x.Entries)))
	case Array:
		return ts.BV(64, uint64(len(x)))
	case Ptr:
		if x == nil {
			return ts.BV(64, 0)
		}
		if a, ok := (*x).(Array); ok {
			return ts.BV(64, uint64(len(a)))
		}
	case *ChanV:
		if x == nil {
			return ts.BV(64, 0)
		}
		return ts.BV(64, uint64(len(x.Buf)))
	}
	panic(unsupported(fmt.Sprintf("len of %T", v)))
}

func (in *Interp) sliceOp(fr *frame, x *ssa.Slice) Value {
	ts := in.ts
	v := in.get(fr, x.X)
	var lo, hi, max *Term
	if x.Low != nil {
		lo = ts.Sext(64, in.get(fr, x.Low).(*Term))
	}
	if x.High != nil {
		hi = ts.Sext(64, in.get(fr, x.High).(*Term))
	}
	if x.Max != nil {
		max = ts.Sext(64, in.get(fr, x.Max).(*Term))
	}
	switch s := v.(type) {
	case *Term: // string
		if lo == nil {
			lo = ts.BV(64, 0)
		}
		n := in.lenTerm(s)
		if hi == nil {
			hi = n
		}
		okc := ts.And(ts.BvSle(ts.BV(64, 0), lo), ts.BvSle(lo, hi), ts.BvSle(hi, n))
		if !in.branch(fr, nil, okc) {
			in.rtPanic("slice bounds out of range (string)")
		}
		return ts.SSubstr(s, ts.SBv2Int(lo), ts.SBv2Int(ts.BvSub(hi, lo)))
	case Ptr: // *array
		if s == nil {
			in.rtPanic("nil pointer dereference (slice of nil *array)")
		}
		arr := (*s).(Array)
		return in.sliceOf([]Value(arr), lo, hi, max)
	case SliceV:
		if s.Blob != nil {
			if lo == nil {
				lo = ts.BV(64, 0)
			}
			n := in.lenTerm(s)
			if hi == nil {
				hi = n
			}
			okc := ts.And(ts.BvSle(ts.BV(64, 0), lo), ts.BvSle(lo, hi), ts.BvSle(hi, n))
			if !in.branch(fr, nil, okc) {
				in.rtPanic("slice bounds out of range (bytes)")
			}
			if lo.IsConst() && lo.u == 0 && hi == n {
				return s
			}
			// a concatenation cut exactly at a part boundary (prefix of known length, or the rest after it)
			if str := in.blobStr(s.Blob); str.op == OSConcat && lo.IsConst() && (hi == n || hi.IsConst()) {
				cut := func(at uint64) int {
					var sum int64
					for j, p := range str.args {
						if sum == int64(at) {
							return j
						}
						l := ts.SLen(p)
						if !l.IsConst() {
							return -1
						}
						sum += l.i
					}
					return -1
				}
				if j := cut(lo.u); j >= 0 {
					if hi == n {
						return in.strToBytes(ts.SConcat(str.args[j:]...))
					}
					if k := cut(hi.u); k >= j {
						return in.strToBytes(ts.SConcat(str.args[j:k]...))
					}
				}
			}
			return SliceV{Blob: in.strBlob(ts.SSubstr(in.blobStr(s.Blob), ts.SBv2Int(lo), ts.SBv2Int(ts.BvSub(hi, lo))))}
		}
		r := in.sliceOf(s.A, lo, hi, max)
		if s.A == nil {
			return SliceV{}
		}
		return r
	}
	panic(unsupported(fmt.Sprintf("slice of %T", v)))
}

func (in *Interp) sliceOf(a []Value, lo, hi, max *Term) Value {
	l, h, m := 0, len(a), cap(a)
	if lo != nil {
		l = in.concreteInt(lo, "slice low")
	}
	if hi != nil {
		h = in.concreteInt(hi, "slice high")
	}
	if max != nil {
		m = in.concreteInt(max, "slice max")
	}
	if l < 0 || h < l || m < h || m > cap(a) {
		in.rtPanic(fmt.Sprintf("slice bounds out of range [%d:%d:%d] with capacity %d", l, h, m, cap(a)))
	}
	if a == nil {
		return SliceV{}
	}
	return SliceV{A: a[l:h:m]}
}

// idx resolves a (possibly symbolic) index against length n; panics (Go) when out of range is feasible.
func (in *Interp) idx(fr *frame, it *Term, n int, what string) int {
	ts := in.ts
	it = ts.Sext(64, it)
	if it.IsConst() {
		i := int(it.SVal())
		if i < 0 || i >= n {
			in.rtPanic(fmt.Sprintf("index out of range [%d] with length %d", i, n))
		}
		return i
	}
	okc := ts.And(ts.BvSle(ts.BV(64, 0), it), ts.BvSlt(it, ts.BV(64, uint64(n))))
	if !in.branch(fr, nil, okc) {
		in.rtPanic(fmt.Sprintf("index out of range [symbolic] with length %d (%s)", n, what))
	}
	return int(in.forkValues(it, 256))
}

func (in *Interp) indexAddr(fr *frame, x *ssa.IndexAddr) Value {
	v := in.get(fr, x.X)
	it := in.get(fr, x.Index).(*Term)
	switch s := v.(type) {
	case Ptr:
		if s == nil {
			in.rtPanic("nil pointer dereference (index of nil *array)")
		}
		arr := (*s).(Array)
		return &arr[in.idx(fr, it, len(arr), "array")]
	case SliceV:
		if s.Blob != nil {
			panic(unsupported("address of element of abstract byte slice"))
		}
		return &s.A[in.idx(fr, it, len(s.A), "slice")]
	}
	panic(unsupported(fmt.Sprintf("IndexAddr on %T", v)))
}

func (in *Interp) index(fr *frame, x *ssa.Index) Value {
	v := in.get(fr, x.X)
	it := in.get(fr, x.Index).(*Term)
	switch s := v.(type) {
	case Array:
		return copyVal(s[in.idx(fr, it, len(s), "array")])
	case *Term:
		return in.strIndex(fr, s, it)
	}
	panic(unsupported(fmt.Sprintf("Index on %T", v)))
}

func (in *Interp) strIndex(fr *frame, s, it *Term) Value {
	ts := in.ts
	it = ts.Sext(64, it)
	if s.IsConst() {
		i := in.idx(fr, it, len(s.s), "string")
		return ts.BV(8, uint64(s.s[i]))
	}
	n := in.lenTerm(s)
	okc := ts.And(ts.BvSle(ts.BV(64, 0), it), ts.BvSlt(it, n))
	if !in.branch(fr, nil, okc) {
		in.rtPanic("index out of range (string)")
	}
	return ts.SAt(s, ts.SBv2Int(it))
}

func (in *Interp) lookup(fr *frame, x *ssa.Lookup) Value {
	v := in.get(fr, x.X)
	k := in.get(fr, x.Index)
	if s, ok := v.(*Term); ok { // string index
		return in.strIndex(fr, s, k.(*Term))
	}
	m := v.(*MapV)
	mt := x.X.Type().Underlying().(*types.Map)
	e := in.mapFind(m, mt.Key(), k)
	var val Value
	if e != nil {
		val = copyVal(e.V)
	} else {
		val = in.zero(mt.Elem())
	}
	if x.CommaOk {
		return Tuple{val, in.ts.Bool(e != nil)}
	}
	return val
}

func (in *Interp) rangeIter(v Value) Value {
	switch x := v.(type) {
	case *MapV:
		it := &iterV{m: x}
		if x != nil {
			it.keys = x.orderedEntries()
			if in.reverse {
				for i, j := 0, len(it.keys)-1; i < j; i, j = i+1, j-1 {
					it.keys[i], it.keys[j] = it.keys[j], it.keys[i]
				}
			}
		}
		return it
	case *Term:
		if !x.IsConst() {
			panic(unsupported("range over symbolic string"))
		}
		return &iterV{isStr: true, str: x.s}
	}
	panic(unsupported(fmt.Sprintf("range over %T", v)))
}

func (in *Interp) next(fr *frame, x *ssa.Next) Value {
	it := in.get(fr, x.Iter).(*iterV)
	ts := in.ts
	if it.isStr {
		if it.pos >= len(it.str) {
			return Tuple{ts.False(), ts.BV(64, 0), ts.BV(32, 0)}
		}
		for i, r := range it.str[it.pos:] {
			_ = i
			p := it.pos
			it.pos += len(string(r))
			if r == 0xFFFD {
				it.pos = p + 1
			}
			return Tuple{ts.True(), ts.BV(64, uint64(p)), ts.BV(32, uint64(r))}
		}
	}
	if in.permute && it.m != nil {
		// all orders: pick any remaining live entry
		var live []*mapEntry
		for _, e := range it.keys {
			if e != nil && in.entryLive(it.m, e) {
				live = append(live, e)
			}
		}
		if len(live) == 0 {
			return Tuple{ts.False(), nil, nil}
		}
		c := in.choice(len(live))
		pick := live[c]
		for i, e := range it.keys {
			if e == pick {
				it.keys[i] = nil
			}
		}
		return Tuple{ts.True(), copyVal(pick.K), copyVal(pick.V)}
	}
	for it.pos < len(it.keys) {
		e := it.keys[it.pos]
		it.pos++
		if in.entryLive(it.m, e) {
			return Tuple{ts.True(), copyVal(e.K), copyVal(e.V)}
		}
	}
	return Tuple{ts.False(), nil, nil}
}

func (in *Interp) entryLive(m *MapV, e *mapEntry) bool {
	for _, x := range m.Entries {
		if x == e {
			return true
		}
	}
	return false
}

func (in *Interp) typeAssert(x *ssa.TypeAssert, v Iface) Value {
	ok := false
	if v.T != nil {
		if it, isI := x.AssertedType.Underlying().(*types.Interface); isI {
			ok = types.Implements(v.T, it)
			if !ok {
				// engine opaque objects implement whatever they are asked for
				if _, isOp := v.V.(*Opaque); isOp {
					ok = true
				}
			}
		} else {
			ok = types.Identical(v.T, x.AssertedType)
		}
	}
	_, toIface := x.AssertedType.Underlying().(*types.Interface)
	var res Value
	if ok {
		if toIface {
			res = v
		} else {
			res = copyVal(v.V)
		}
	} else {
		res = in.zero(x.AssertedType)
	}
	if x.CommaOk {
		return Tuple{res, in.ts.Bool(ok)}
	}
	if !ok {
		dyn := "nil"
		if v.T != nil {
			dyn = v.T.String()
		}
		panic(&goPanic{msg: fmt.Sprintf("interface conversion: interface is %s, not %s", dyn, x.AssertedType), rt: true, stack: in.stack()})
	}
	return res
}

// ---- builtins ----

func (in *Interp) callBuiltin(fr *frame, b *ssa.Builtin, args []Value, site ssa.Instruction) Value {
	ts := in.ts
	switch b.Name() {
	case "append":
		s := args[0].(SliceV)
		if len(args) == 1 {
			return s
		}
		switch y := args[1].(type) {
		case *Term: // string
			y2 := in.strToBytes(y)
			return in.appendSlices(s, y2)
		case SliceV:
			return in.appendSlices(s, y)
		}
		panic(unsupported(fmt.Sprintf("append of %T", args[1])))
	case "copy":
		dst := args[0].(SliceV)
		var src SliceV
		switch y := args[1].(type) {
		case *Term:
			src = in.strToBytes(y)
		case SliceV:
			src = y
		}
		if dst.Blob != nil || src.Blob != nil {
			if len(dst.A) == 0 && dst.Blob == nil {
				return ts.BV(64, 0)
			}
			panic(unsupported("copy involving abstract byte slice"))
		}
		n := copy(dst.A, src.A)
		return ts.BV(64, uint64(n))
	case "len":
		return in.lenTerm(args[0])
	case "cap":
		switch x := args[0].(type) {
		case SliceV:
			if x.Blob != nil {
				return in.lenTerm(x)
			}
			return ts.BV(64, uint64(cap(x.A)))
		case Array:
			return ts.BV(64, uint64(len(x)))
		case Ptr:
			if x == nil {
				return ts.BV(64, 0)
			}
			return ts.BV(64, uint64(len((*x).(Array))))
		case *ChanV:
			return ts.BV(64, 0)
		}
		panic(unsupported("cap"))
	case "delete":
		m := args[0].(*MapV)
		if m == nil {
			return nil
		}
		var kt types.Type
		if c, ok := site.(ssa.CallInstruction); ok {
			kt = c.Common().Args[0].Type().Underlying().(*types.Map).Key()
		}
		in.mapDelete(m, kt, args[1])
		return nil
	case "print", "println":
		return nil
	case "panic":
		panic(&goPanic{val: args[0], msg: in.panicString(args[0]), stack: in.stack()})
	case "recover":
		// recover() is effective only when called directly by a deferred function
		c := fr.caller
		if c != nil && c.panicking {
			c.panicking = false
			p := c.panic
			c.panic = nil
			if p.val != nil {
				return p.val
			}
			return Iface{T: types.Typ[types.String], V: ts.Str(p.msg)}
		}
		return Iface{}
	case "ssa:wrapnilchk":
		if p, ok := args[0].(Ptr); ok && p == nil {
			in.rtPanic("value method called using nil pointer")
		}
		return args[0]
	case "min", "max":
		r := args[0].(*Term)
		var sg bool
		if c, ok := site.(ssa.CallInstruction); ok {
			_, sg, _ = isIntType(c.Common().Args[0].Type())
		}
		for _, a := range args[1:] {
			t := a.(*Term)
			var lt *Term
			if sg {
				lt = ts.BvSlt(t, r)
			} else {
				lt = ts.BvUlt(t, r)
			}
			if b.Name() == "max" {
				lt = ts.Not(ts.Or(lt, ts.Eq(t, r)))
				lt = ts.Not(lt)
				// max: pick t when t > r
				if sg {
					r = ts.Ite(ts.BvSlt(r, t), t, r)
				} else {
					r = ts.Ite(ts.BvUlt(r, t), t, r)
				}
				continue
			}
			r = ts.Ite(lt, t, r)
		}
		return r
	case "close":
		ch := args[0].(*ChanV)
		if ch != nil {
			ch.Closed = true
			in.gprogress()
		}
		return nil
	case "clear":
		switch x := args[0].(type) {
		case *MapV:
			if x != nil {
				x.Entries = nil
				x.idx = map[string]int{}
			}
		}
		return nil
	}
	panic(unsupported("builtin " + b.Name()))
}

func (in *Interp) appendSlices(s, y SliceV) Value {
	if s.Blob != nil || y.Blob != nil {
		if len(s.A) == 0 && s.Blob == nil {
			// append(empty, blob...) == copy of blob (a new content cell: the source may be a reused buffer)
			nb := *y.Blob
			return SliceV{Blob: &nb}
		}
		if len(y.A) == 0 && y.Blob == nil {
			return s
		}
		return SliceV{Blob: in.strBlob(in.ts.SConcat(in.sliceStr(s), in.sliceStr(y)))}
	}
	if len(y.A) == 0 {
		if s.A == nil && y.A != nil {
			return SliceV{A: []Value{}}
		}
		return s
	}
	ycopy := make([]Value, len(y.A))
	for i, e := range y.A {
		ycopy[i] = copyVal(e)
	}
	return SliceV{A: append(s.A, ycopy...)}
}

// ---- goroutines / select (minimal) ----


func (in *Interp) selectStmt(fr *frame, x *ssa.Select) Value {
	for {
		if v, ok := in.selectOnce(fr, x); ok {
			return v
		}
		in.gwait("select")
	}
}

func (in *Interp) selectOnce(fr *frame, x *ssa.Select) (Value, bool) {
	// Pick the first ready receive state; ticker channels are always ready, done channels when closed.
	for i, st := range x.States {
		if st.Dir == types.SendOnly {
			// sends never block
			ch, _ := in.get(fr, st.Chan).(*ChanV)
			if ch == nil {
				continue
			}
			ch.Buf = append(ch.Buf, in.get(fr, st.Send))
			in.gprogress()
			res := Tuple{in.ts.BV(64, uint64(i)), in.ts.False()}
			for _, s2 := range x.States {
				if s2.Dir == types.RecvOnly {
					res = append(res, in.zero(s2.Chan.Type().Underlying().(*types.Chan).Elem()))
				}
			}
			return res, true
		}
		if st.Dir != types.RecvOnly {
			continue
		}
		ch, _ := in.get(fr, st.Chan).(*ChanV)
		if ch == nil {
			continue
		}
		ready := false
		var val Value
		switch ch.Kind {
		case "done":
			ready = ch.Closed
			val = Struct{}
		case "ticker":
			ready = in.hookTick(ch)
			val = TimeV{in.now()}
		default:
			if len(ch.Buf) > 0 {
				ready = true
				val = ch.Buf[0]
				ch.Buf = ch.Buf[1:]
			} else if ch.Closed {
				ready = true
				val = in.zero(st.Chan.Type().Underlying().(*types.Chan).Elem())
			}
		}
		if ready {
			res := Tuple{in.ts.BV(64, uint64(i)), in.ts.True()}
			for j, s2 := range x.States {
				if s2.Dir == types.RecvOnly {
					if j == i {
						res = append(res, val)
					} else {
						res = append(res, in.zero(s2.Chan.Type().Underlying().(*types.Chan).Elem()))
					}
				}
			}
			return res, true
		}
	}
	if !x.Blocking {
		res := Tuple{in.ts.BV(64, ^uint64(0)), in.ts.False()}
		for _, s2 := range x.States {
			if s2.Dir == types.RecvOnly {
				res = append(res, in.zero(s2.Chan.Type().Underlying().(*types.Chan).Elem()))
			}
		}
		return res, true
	}
	return nil, false
}
