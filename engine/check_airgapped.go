package main

import "fmt"

const airPkg = "airgapped"

// ceremonyJob: the whole airgapped ceremony (harness/airgapped/zz_vf_ceremony.go)
func ceremonyJob(tag string, n, t int, extra map[string]string, what string) Job {
	p := map[string]string{"n": fmt.Sprint(n), "t": fmt.Sprint(t), "tag": tag}
	for k, v := range extra {
		p[k] = v
	}
	return Job{Pkg: airPkg, Fn: "VF_Air_Ceremony", Opts: defaultOpts(), Tag: fmt.Sprintf("ceremony n=%d t=%d %s", n, t, what), Case: "ceremony " + what, Params: p}
}

const ceremonyAssume = "kyber Pedersen DKG contracts (engine/intrin_air.go, intrin_kyber_dkg.go: Deals/ProcessDeal/ProcessResponse/Certified/DistKeyShare control flow, shares and commitments as uninterpreted terms of the dealers' randomness), ecies/gob/scrypt/AES-GCM round-trip contracts, scrypt and the kyber encodings collision-free, a ciphertext or signature never equals a program literal, LevelDB = atomic map that survives reopen"

// runCeremony runs the ceremony jobs of a check and validates the scenario natively (real kyber, real LevelDB).
func runCeremony(cr *CheckRun, jobs []Job, native []map[string]int) {
	res := cr.Pool.Run(jobs)
	cr.absorb(jobs, res)
	if len(cr.fails) == 0 {
		for i, j := range jobs {
			if i < len(native) && native[i] != nil {
				cr.validateNatively(j, nil, native[i])
			}
		}
	}
	cr.assume = append(cr.assume, ceremonyAssume)
}

func init() {
	checkDefs["C04"] = &checkDef{level: "other", pkgs: []string{airPkg}, run: func(cr *CheckRun) {
		cr.owner = func(l string) bool {
			return hasPrefixAny(l, "round-separation", "commits-step-succeeds", "output-indep-of-secret", "restart-loses-volatile-state", "deal-key-matches-recipient", "atrest-sealed",
				"wrong-password-fails", "right-password-loads", "dropped-password", "honest-step-succeeds", "airgapped-reinit-replays-requests:succeeds")
		}
		jobs := []Job{{Pkg: airPkg, Fn: "VF_Airgapped_Commits", Opts: defaultOpts(), Tag: "two rounds on one machine", Case: "commitments step",
			Params: map[string]string{"tag": "c04"}}}
		res := cr.Pool.Run(jobs)
		cr.absorb(jobs, res)
		all := map[string]string{"atrest": "1", "sign": "1", "reinit": "1"}
		cj := []Job{ceremonyJob("c04n2", 2, 2, all, "outputs, deals, at rest"),
			ceremonyJob("c04nonce", 2, 2, map[string]string{"nonces": "1"}, "a second round after a restart: signing nonces"),
			ceremonyJob("c04rev", 2, 2, map[string]string{"listing": "rev"}, "participants listed in descending id order")}
		nat := []map[string]int{{}, {}, {}}
		if cr.Tier == "thorough" {
			cj = append(cj, ceremonyJob("c04n3", 3, 2, all, "outputs, deals, at rest (n=3)"), ceremonyJob("c04n3t3", 3, 3, all, "outputs, deals, at rest (n=3,t=3)"))
			nat = append(nat, map[string]int{}, nil)
			cj = append(cj, ceremonyJob("c04rev3", 3, 2, map[string]string{"listing": "rev"}, "participants listed in descending id order (n=3)"))
		}
		runCeremony(cr, cj, nat)
		cr.groupKey = func(v Violation) string { return v.Label }
		cr.samples = append(cr.samples, map[string]interface{}{"scenario": "one machine, rounds 'round-one-identifier' and 'round-two-identifier', same participants and threshold; compare the published commitments"},
			map[string]interface{}{"scenario": "n machines run the whole ceremony (commitments, deals, responses, master key), sign a two-message batch, machine 0 is reinitialised on a fresh database; every result operation, the database of machine 0 and a second password are examined"})
		cr.explanation = "All four clauses of C04 at contract level. (1) vf.NoLeak on every result operation of every step (also signing, reinit, reinit on a machine that already holds the round): self-composition on the path's terms - two runs whose secrets (every machine's base seed, hence every derived scalar, polynomial coefficient and share) differ but whose declassified values (public points, commitments, ciphertexts, signatures) agree produce the same output and take the same path; decided by the solver. (2) every deal message of machine 0 opens with the addressee's key and with no other participant's key. (3) every database value except the seed and the operation log is independent of the private key and the shares except through AES-GCM under scrypt(password, salt); another password (any 8 bytes different from the right one) loads neither the key nor a keyring; a machine whose password was dropped and re-entered wrongly loads nothing. (4) round separation of the dealer polynomial (known finding) and of the per-round suite seed. The same scenario runs natively (real kyber, scrypt, AES-GCM, LevelDB) on every run with a scan of all outputs and database values for the raw/hex/base64/nested encodings of the secrets."
		cr.bounds["scenario"] = "n=2,t=2 (thorough: also n=3 with t=2 and t=3); one round; batch of two messages with 2 symbolic payload bytes each; symbolic 32-byte base seeds, symbolic wrong password of 8 bytes"
		cr.bounds["outside"] = "strength of scrypt/AES-GCM/ECIES/BLS (contracts), plaintext residues inside LevelDB's files (the database is a key-value map here), the base seed stored in the clear (by design of the code; not a clause of C04 as stated), side channels"
		cr.assume = append(cr.assume, "kyber contract: dkg.NewDistKeyGenerator(suite, long, pks, t, reader) draws the dealer's secret polynomial from reader only (UserReaderOnly, vss.NewDealer); frand.NewCustom(seed) is a function of seed")
		cr.trusted = append(cr.trusted, "gosx SSA->SMT executor", "z3 4.8.12", "kyber/crypto contracts (engine/intrin_kyber*.go, intrin_air.go; exercised natively on every run)")
	}}
	checkDefs["C12"] = &checkDef{level: "other", pkgs: []string{airPkg}, run: func(cr *CheckRun) {
		cr.owner = func(l string) bool {
			return hasPrefixAny(l, "seeds-from-mnemonic-and-round", "crash-replay-equal", "replay-does-not-log", "replay-succeeds", "refeed-succeeds", "restart-loses-volatile-state", "commits-step-succeeds", "honest-step-succeeds")
		}
		jobs := []Job{
			{Pkg: airPkg, Fn: "VF_Airgapped_Commits", Opts: defaultOpts(), Tag: "two machines, same seed", Case: "seeds", Params: map[string]string{"tag": "c12a"}},
			{Pkg: airPkg, Fn: "VF_Airgapped_Replay", Opts: defaultOpts(), Tag: "stop/restart/replay around the commitments step", Case: "replay", Params: map[string]string{"tag": "c12b"}},
			{Pkg: airPkg, Fn: "VF_Airgapped_Replay", Opts: defaultOpts(), Tag: "stop/restart/replay around the commitments step of a second round", Case: "replay after an earlier round", Params: map[string]string{"tag": "c12c", "prior": "1"}},
		}
		res := cr.Pool.Run(jobs)
		cr.absorb(jobs, res)
		{
			cj := []Job{ceremonyJob("c12n2", 2, 2, map[string]string{"twin": "1"}, "twin of machine 0 stopped at every step")}
			if cr.Tier == "thorough" {
				cj = append(cj, ceremonyJob("c12n3", 3, 2, map[string]string{"twin": "1"}, "twin of machine 0 stopped at every step (n=3)"),
					ceremonyJob("c12s2", 2, 2, map[string]string{"twin": "1", "stop2": "1"}, "twin of machine 0 stopped twice (every pair of steps)"))
			}
			res := cr.Pool.Run(cj)
			cr.absorb(cj, res)
			if len(cr.fails) == 0 {
				for stop := 0; stop < 8; stop++ {
					cr.validateNatively(cj[0], nil, map[string]int{"stop": stop})
				}
			}
			cr.assume = append(cr.assume, ceremonyAssume)
		}
		if len(cr.fails) == 0 {
			for stop := 0; stop < 3; stop++ {
				cr.validateNatively(jobs[1], nil, map[string]int{"stop": stop})
			}
			cr.validateNatively(jobs[2], nil, map[string]int{"stop": 2})
		}
		cr.samples = append(cr.samples, map[string]interface{}{"stops": []string{"before the step", "step computed but not logged", "step logged"}})
		cr.explanation = "dc4bc's share of C12 for the first DKG step: NewMachine/SetBaseSeed/ProcessOperation/GetOperationResult/storeOperation/getOperationsLog/ReplayOperationsLog and the commitments handler executed from SSA over the LevelDB/file stubs and kyber contracts. (1) Two machines built from the same mnemonic publish the same long-term key and the same commitments for the same operation. (2) A machine stopped before the step, after computing it without logging, or after logging it, reopened on the same database and rebuilt by replay (or by feeding the operation again when nothing was logged) has the same DKG instance (participant id, n, t, dealer commitments) as the uninterrupted one; replay does not log again. (3) Whole ceremony: a twin of machine 0 (same mnemonic, own database) is stopped at step k in {commitments, deals, responses, master key}, before or after logging, reopened the way cmd/airgapped does (NewMachine, password, InitKeys), rebuilt with ReplayOperationsLog (+ the unlogged operation fed again) and carries on: every later result (commitments, deals after decryption by their addressee, responses, announced key and polynomial) and the stored keyring (share, polynomial) equal those of the uninterrupted machine, and the log has the same length. Each stop point is also run natively with real kyber and real LevelDB on every run."
		cr.bounds["scenario"] = "n=2, t=2 (thorough: n=3 too); all four DKG steps; one stop per run at each step, either after the result was computed and before it was logged or after it was logged; additionally around the commitments step of a second round of the same process"
		cr.bounds["outside"] = "more than one restart per ceremony in the quick tier (thorough: every pair of stops at two different steps), a crash between the log write and the result-file write inside ProcessOperation (indistinguishable from 'logged' for the machine state; the result file is rewritten by the replay), bit-identity of kyber's outputs (determinism contract), ciphertext bytes of deals (freshly randomised per encryption: compared after decryption)"
		cr.assume = append(cr.assume, "kyber contracts: seeded suites and frand are functions of their seed; LevelDB = atomic map that survives reopen; bip39/pbkdf2 evaluated natively")
		cr.trusted = append(cr.trusted, "gosx SSA->SMT executor", "z3 4.8.12", "kyber contracts (validated natively per run)")
	}}
}
