package main

const airPkg = "airgapped"

func init() {
	checkDefs["C04"] = &checkDef{level: "other", pkgs: []string{airPkg}, run: func(cr *CheckRun) {
		cr.owner = func(l string) bool { return hasPrefixAny(l, "round-separation", "commits-step-succeeds") }
		jobs := []Job{{Pkg: airPkg, Fn: "VF_Airgapped_Commits", Opts: defaultOpts(), Tag: "two rounds on one machine", Case: "commitments step",
			Params: map[string]string{"tag": "c04"}}}
		res := cr.Pool.Run(jobs)
		cr.absorb(jobs, res)
		cr.groupKey = func(v Violation) string { return v.Label }
		cr.samples = append(cr.samples, map[string]interface{}{"scenario": "one machine, rounds 'round-one-identifier' and 'round-two-identifier', same participants and threshold; compare the published commitments"})
		cr.explanation = "Only clause (4) of C04 (round separation) is decided: handleStateDkgCommitsAwaitConfirmations / dkg.Init / InitDKGInstance executed from SSA for two round identifiers on one machine; under the kyber contract 'the dealer polynomial is drawn from the reader given to NewDistKeyGenerator only' the published commitments are compared. The other clauses (no secret in any output in any encoding, deals openable by the addressee only, at-rest encryption) need ECIES/scrypt/AES-GCM/gob and an output scan; they are outside this technique here."
		cr.bounds["scenario"] = "n=2, t=2, two fixed different round identifiers, symbolic 32-byte base seed"
		cr.bounds["outside"] = "clauses (1)-(3) of C04; later DKG steps; signing"
		cr.assume = append(cr.assume, "kyber contract: dkg.NewDistKeyGenerator(suite, long, pks, t, reader) draws the dealer's secret polynomial from reader only (UserReaderOnly, vss.NewDealer); frand.NewCustom(seed) is a function of seed")
		cr.trusted = append(cr.trusted, "gosx SSA->SMT executor", "z3 4.8.12", "kyber contracts (engine/intrin_kyber*.go)")
	}}
	checkDefs["C12"] = &checkDef{level: "other", pkgs: []string{airPkg}, run: func(cr *CheckRun) {
		cr.owner = func(l string) bool {
			return hasPrefixAny(l, "seeds-from-mnemonic-and-round", "crash-replay-equal", "replay-does-not-log", "replay-succeeds", "refeed-succeeds", "restart-loses-volatile-state", "commits-step-succeeds")
		}
		jobs := []Job{
			{Pkg: airPkg, Fn: "VF_Airgapped_Commits", Opts: defaultOpts(), Tag: "two machines, same seed", Case: "seeds", Params: map[string]string{"tag": "c12a"}},
			{Pkg: airPkg, Fn: "VF_Airgapped_Replay", Opts: defaultOpts(), Tag: "stop/restart/replay around the commitments step", Case: "replay", Params: map[string]string{"tag": "c12b"}},
			{Pkg: airPkg, Fn: "VF_Airgapped_Replay", Opts: defaultOpts(), Tag: "stop/restart/replay around the commitments step of a second round", Case: "replay after an earlier round", Params: map[string]string{"tag": "c12c", "prior": "1"}},
		}
		res := cr.Pool.Run(jobs)
		cr.absorb(jobs, res)
		if len(cr.fails) == 0 {
			for stop := 0; stop < 3; stop++ {
				cr.validateNatively(jobs[1], nil, map[string]int{"stop": stop})
			}
			cr.validateNatively(jobs[2], nil, map[string]int{"stop": 2})
		}
		cr.samples = append(cr.samples, map[string]interface{}{"stops": []string{"before the step", "step computed but not logged", "step logged"}})
		cr.explanation = "dc4bc's share of C12 for the first DKG step: NewMachine/SetBaseSeed/ProcessOperation/GetOperationResult/storeOperation/getOperationsLog/ReplayOperationsLog and the commitments handler executed from SSA over the LevelDB/file stubs and kyber contracts. (1) Two machines built from the same mnemonic publish the same long-term key and the same commitments for the same operation. (2) A machine stopped before the step, after computing it without logging, or after logging it, reopened on the same database and rebuilt by replay (or by feeding the operation again when nothing was logged) has the same DKG instance (participant id, n, t, dealer commitments) as the uninterrupted one; replay does not log again. Each stop point is also run natively with real kyber and real LevelDB on every run."
		cr.bounds["scenario"] = "n=2, t=2; commitments step only; one stop per run; the round is the first one the process handles, or the second one (an earlier round's first step was handled by the same process)"
		cr.bounds["outside"] = "the deals/responses/master-key steps (need the full Pedersen DKG state machine as contracts), crashes between the log write and the result-file write inside ProcessOperation (no injection point without hooks), bit-identity of kyber's outputs (determinism contract)"
		cr.assume = append(cr.assume, "kyber contracts: seeded suites and frand are functions of their seed; LevelDB = atomic map that survives reopen; bip39/pbkdf2 evaluated natively")
		cr.trusted = append(cr.trusted, "gosx SSA->SMT executor", "z3 4.8.12", "kyber contracts (validated natively per run)")
	}}
}
