package main

// Logical threads: vf.Par(f, g) runs two closures as cooperative threads; a context switch may happen only at
// vf.Yield() points (the harness places them around every state-store call and board call). The schedule is part of the
// decision vector (choice points), bounded by a pre-emption budget.

import (
	"strconv"
)

type vthread struct {
	id     int
	resume chan struct{}
	done   bool
	cur    *frame
	abort  interface{} // engine abort or Go panic that ended the thread
}

type schedState struct {
	threads  [2]*vthread
	cur      int
	preempts int
	bound    int
	active   bool
}

func (in *Interp) sched() *schedState {
	s, _ := in.hooks["sched"].(*schedState)
	return s
}

// switchTo hands the processor to thread t and blocks the caller until it is resumed.
func (in *Interp) switchTo(s *schedState, to int) {
	from := s.cur
	s.threads[from].cur = in.cur
	s.cur = to
	in.cur = s.threads[to].cur
	s.threads[to].resume <- struct{}{}
	<-s.threads[from].resume
	in.cur = s.threads[from].cur
	s.cur = from
}

func (in *Interp) vfYield() {
	s := in.sched()
	if s == nil || !s.active {
		return
	}
	other := 1 - s.cur
	if s.threads[other].done {
		return
	}
	if s.preempts >= s.bound {
		return
	}
	if in.namedChoice("sched", 2) == 1 {
		s.preempts++
		in.switchTo(s, other)
		in.rethrow(s)
	}
}

// rethrow propagates an abort raised in the other thread into the thread that is running now.
func (in *Interp) rethrow(s *schedState) {
	for _, t := range s.threads {
		if t.abort != nil {
			a := t.abort
			t.abort = nil
			panic(a)
		}
	}
}

func (in *Interp) vfPar(caller *frame, f, g Value) {
	if s := in.sched(); s != nil && s.active {
		panic(unsupported("nested vf.Par"))
	}
	bound := 2
	if b, ok := in.params["preemptions"]; ok {
		bound, _ = strconv.Atoi(b)
	}
	s := &schedState{bound: bound, active: true}
	s.threads[0] = &vthread{id: 0, resume: make(chan struct{})}
	s.threads[1] = &vthread{id: 1, resume: make(chan struct{})}
	in.hooks["sched"] = s
	t1 := s.threads[1]
	go func() {
		<-t1.resume
		defer func() {
			if r := recover(); r != nil {
				t1.abort = r
			}
			t1.done = true
			// give the processor back to thread 0 for good
			s.cur = 0
			s.threads[0].resume <- struct{}{}
		}()
		in.callValue(nil, g, nil, nil)
	}()
	// which thread starts is a scheduling decision too
	if in.namedChoice("sched", 2) == 1 {
		in.switchTo(s, 1)
		in.rethrow(s)
	}
	func() {
		defer func() {
			if r := recover(); r != nil {
				// thread 0 aborted: the other goroutine (if it ever started) stays parked; the path ends here anyway
				s.active = false
				panic(r)
			}
		}()
		in.callValue(caller, f, nil, nil)
	}()
	s.threads[0].done = true
	if !t1.done {
		s.threads[0].cur = in.cur
		s.cur = 1
		in.cur = t1.cur
		t1.resume <- struct{}{}
		<-s.threads[0].resume
		in.cur = s.threads[0].cur
	}
	s.active = false
	in.rethrow(s)
}

// mutexes between logical threads: a thread that finds the mutex held by the other one hands over the processor
// (it is blocked) and retries when it runs again. Readers of an RWMutex are treated like writers (coarser, still sound
// for mutual exclusion; may report a deadlock that real readers would not have - none occurs in dc4bc).
func (in *Interp) mutexLock(m Value) {
	s := in.sched()
	if s == nil || !s.active {
		if p, ok := m.(Ptr); ok && p != nil {
			in.gMutexLock(p)
		}
		return
	}
	p, ok := m.(Ptr)
	if !ok || p == nil {
		return
	}
	held, _ := in.hooks["mutexes"].(map[Ptr]int)
	if held == nil {
		held = map[Ptr]int{}
		in.hooks["mutexes"] = held
	}
	waiting, _ := in.hooks["mutexwait"].(map[Ptr]int)
	if waiting == nil {
		waiting = map[Ptr]int{}
		in.hooks["mutexwait"] = waiting
	}
	me := s.cur
	for spins := 0; ; spins++ {
		owner, taken := held[p]
		if !taken {
			held[p] = me
			return
		}
		if owner == me {
			if _, w := waiting[p]; w {
				delete(waiting, p) // handed over to us by the unlocking thread while we were descheduled
				return
			}
			panic(pathDone{"self-deadlock on a mutex"})
		}
		other := 1 - me
		if s.threads[other].done || spins > 1000 {
			panic(pathDone{"deadlock on a mutex"})
		}
		waiting[p] = me
		in.switchTo(s, other) // blocked: not a pre-emption
		in.rethrow(s)
		if held[p] == me {
			delete(waiting, p)
			return
		}
	}
}

// mutexUnlock: a waiter (as with a real mutex) gets the lock at once, but stays descheduled until it is switched to.
func (in *Interp) mutexUnlock(m Value) {
	s := in.sched()
	if s == nil || !s.active {
		if p, ok := m.(Ptr); ok && p != nil {
			in.gMutexUnlock(p)
		}
		return
	}
	p, ok := m.(Ptr)
	if !ok || p == nil {
		return
	}
	held, _ := in.hooks["mutexes"].(map[Ptr]int)
	if held == nil {
		return
	}
	if waiting, _ := in.hooks["mutexwait"].(map[Ptr]int); waiting != nil {
		if w, ok := waiting[p]; ok && w != s.cur {
			held[p] = w
			return
		}
	}
	delete(held, p)
}
