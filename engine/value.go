package main

// Value model: concrete shape, symbolic content.

import (
	"fmt"
	"go/types"
	"sort"
	"strings"

	"golang.org/x/tools/go/ssa"
)

type Value interface{}

type Struct []Value
type Array []Value
type Tuple []Value

// Ptr is a pointer to a memory cell. A nil *Value is the nil pointer.
type Ptr = *Value

type SliceV struct {
	A    []Value // nil => nil slice (unless Blob != nil)
	Blob *Blob   // byte slice with abstract content
}

type Iface struct {
	T types.Type // nil => nil interface
	V Value
}

type Closure struct {
	Fn  *ssa.Function
	Env []Value
}

// Intrinsic function value (e.g. method value of an engine object)
type IntrinsicFn struct {
	Name string
	Fn   func(in *Interp, args []Value) Value
}

type TimeV struct{ T *Term } // Int sort: ns since Unix epoch; zeroTimeNs = time.Time{}

// Opaque is an engine-level object (library handle) whose methods are contract stubs.
type Opaque struct {
	Kind string
	Data interface{}
}

type ChanV struct {
	Ticks  int
	Kind   string // "ticker", "done", "plain"
	Buf    []Value
	Closed bool
}

type mapEntry struct {
	K Value
	V Value // stored as cell content; address-taking of map elems is not allowed in Go
}

type MapV struct {
	Entries []*mapEntry
	idx     map[string]int // concrete key -> entry index
}

type iterV struct { // Range iterator
	m     *MapV
	keys  []*mapEntry // snapshot
	pos   int
	str   string
	isStr bool
}

// Blob: abstract content of a byte slice / string.
type Blob struct {
	ID   int
	Node *JNode // JSON tree (nil for pure string blobs)
	Str  *Term  // string term denoting the bytes (opaque symbol for JSON blobs)
}

// zeroTimeNs is the Unix-nanosecond value used for time.Time{} (year 1). Real value would overflow int64 ns;
// we use a fixed sentinel far below any real timestamp.
const zeroTimeNs int64 = -(1 << 62) // see intrin_time.go

func isTimeType(t types.Type) bool {
	n, ok := t.(*types.Named)
	if !ok {
		return false
	}
	o := n.Obj()
	return o.Pkg() != nil && o.Pkg().Path() == "time" && o.Name() == "Time"
}

func intWidth(b *types.Basic) (w int, signed bool) {
	switch b.Kind() {
	case types.Int8:
		return 8, true
	case types.Int16:
		return 16, true
	case types.Int32, types.UntypedRune:
		return 32, true
	case types.Int64, types.Int, types.UntypedInt:
		return 64, true
	case types.Uint8:
		return 8, false
	case types.Uint16:
		return 16, false
	case types.Uint32:
		return 32, false
	case types.Uint64, types.Uint, types.Uintptr:
		return 64, false
	}
	return 0, false
}

func isIntType(t types.Type) (w int, signed bool, ok bool) {
	b, isB := t.Underlying().(*types.Basic)
	if !isB {
		return 0, false, false
	}
	w, signed = intWidth(b)
	return w, signed, w != 0
}

func (in *Interp) zero(t types.Type) Value {
	if isTimeType(t) {
		return TimeV{in.ts.Int(zeroTimeNs)}
	}
	switch u := t.Underlying().(type) {
	case *types.Basic:
		if u.Kind() == types.Bool || u.Kind() == types.UntypedBool {
			return in.ts.False()
		}
		if w, _ := intWidth(u); w != 0 {
			return in.ts.BV(w, 0)
		}
		switch u.Kind() {
		case types.String, types.UntypedString:
			return in.ts.Str("")
		case types.Float32, types.Float64, types.UntypedFloat:
			return float64(0)
		case types.UnsafePointer:
			return Ptr(nil)
		case types.UntypedNil:
			return nil
		}
		panic(unsupported("zero of basic " + u.String()))
	case *types.Struct:
		s := make(Struct, u.NumFields())
		for i := range s {
			s[i] = in.zero(u.Field(i).Type())
		}
		return s
	case *types.Array:
		a := make(Array, u.Len())
		for i := range a {
			a[i] = in.zero(u.Elem())
		}
		return a
	case *types.Pointer:
		return Ptr(nil)
	case *types.Slice:
		return SliceV{}
	case *types.Map:
		return (*MapV)(nil)
	case *types.Interface:
		return Iface{}
	case *types.Signature:
		return nil
	case *types.Chan:
		return (*ChanV)(nil)
	case *types.Tuple:
		tp := make(Tuple, u.Len())
		for i := range tp {
			tp[i] = in.zero(u.At(i).Type())
		}
		return tp
	}
	panic(unsupported("zero of " + t.String()))
}

// copyVal deep-copies aggregates (struct/array); everything else is shared (immutable or reference).
func copyVal(v Value) Value {
	switch x := v.(type) {
	case Struct:
		c := make(Struct, len(x))
		for i, e := range x {
			c[i] = copyVal(e)
		}
		return c
	case Array:
		c := make(Array, len(x))
		for i, e := range x {
			c[i] = copyVal(e)
		}
		return c
	case Tuple:
		c := make(Tuple, len(x))
		for i, e := range x {
			c[i] = copyVal(e)
		}
		return c
	}
	return v
}

// storeVal writes v into *addr keeping the addresses of sub-cells stable.
func storeVal(addr Ptr, v Value) {
	switch x := v.(type) {
	case Struct:
		if dst, ok := (*addr).(Struct); ok && len(dst) == len(x) {
			for i := range x {
				storeVal(&dst[i], x[i])
			}
			return
		}
		*addr = copyVal(x)
	case Array:
		if dst, ok := (*addr).(Array); ok && len(dst) == len(x) {
			for i := range x {
				storeVal(&dst[i], x[i])
			}
			return
		}
		*addr = copyVal(x)
	default:
		*addr = v
	}
}

type unsupportedErr struct{ msg string }

func unsupported(msg string) unsupportedErr { return unsupportedErr{msg} }

// ---------- maps ----------

func NewMap() *MapV { return &MapV{idx: map[string]int{}} }

// keyString returns a canonical string for a fully concrete key.
func keyString(v Value) (string, bool) {
	switch x := v.(type) {
	case *Term:
		if !x.IsConst() {
			return "", false
		}
		switch x.sort.K {
		case SBool, SBV:
			return fmt.Sprintf("b%d:%d", x.sort.W, x.u), true
		case SInt:
			return fmt.Sprintf("i%d", x.i), true
		case SStr:
			return "s" + x.s, true
		}
	case Struct:
		var sb strings.Builder
		sb.WriteString("{")
		for _, f := range x {
			s, ok := keyString(f)
			if !ok {
				return "", false
			}
			fmt.Fprintf(&sb, "%d:%s,", len(s), s)
		}
		sb.WriteString("}")
		return sb.String(), true
	case Array:
		var sb strings.Builder
		sb.WriteString("[")
		for _, f := range x {
			s, ok := keyString(f)
			if !ok {
				return "", false
			}
			fmt.Fprintf(&sb, "%d:%s,", len(s), s)
		}
		sb.WriteString("]")
		return sb.String(), true
	case Iface:
		if x.T == nil {
			return "nil", true
		}
		s, ok := keyString(x.V)
		return "I" + x.T.String() + ":" + s, ok
	case Ptr:
		return fmt.Sprintf("p%p", x), true
	case float64:
		return fmt.Sprintf("f%v", x), true
	}
	return "", false
}

// lookup finds the entry for key k. For symbolic keys / entries it forks on equality.
func (in *Interp) mapFind(m *MapV, kt types.Type, k Value) *mapEntry {
	if m == nil {
		return nil
	}
	ks, conc := keyString(k)
	allConc := len(m.idx) == len(m.Entries)
	if conc && allConc {
		if i, ok := m.idx[ks]; ok {
			return m.Entries[i]
		}
		return nil
	}
	// symbolic: case split over entries
	if len(m.Entries) == 0 {
		return nil
	}
	conds := make([]*Term, 0, len(m.Entries)+1)
	none := in.ts.True()
	var cands []*mapEntry
	for _, e := range m.Entries {
		eks, econc := keyString(e.K)
		if conc && econc {
			if eks == ks {
				return e
			}
			continue
		}
		eq := in.eqVal(kt, e.K, k)
		if eq.IsConst() {
			if eq.BoolVal() {
				return e
			}
			continue
		}
		// this entry matches and no earlier candidate matched (keys in a map are distinct, so at most one matches)
		conds = append(conds, eq)
		cands = append(cands, e)
		none = in.ts.And(none, in.ts.Not(eq))
	}
	if len(cands) == 0 {
		return nil
	}
	conds = append(conds, none)
	i := in.fork("mapkey", conds)
	if i == len(cands) {
		return nil
	}
	return cands[i]
}

func (in *Interp) mapSet(m *MapV, kt types.Type, k, v Value) {
	if e := in.mapFind(m, kt, k); e != nil {
		e.V = copyVal(v)
		return
	}
	m.Entries = append(m.Entries, &mapEntry{K: copyVal(k), V: copyVal(v)})
	if ks, ok := keyString(k); ok {
		m.idx[ks] = len(m.Entries) - 1
	}
}

func (in *Interp) mapDelete(m *MapV, kt types.Type, k Value) {
	e := in.mapFind(m, kt, k)
	if e == nil {
		return
	}
	out := m.Entries[:0:0]
	for _, x := range m.Entries {
		if x != e {
			out = append(out, x)
		}
	}
	m.Entries = out
	m.idx = map[string]int{}
	for i, x := range m.Entries {
		if ks, ok := keyString(x.K); ok {
			m.idx[ks] = i
		}
	}
}

// orderedEntries returns the iteration order used for `range` (canonical: sorted by concrete key, else insertion).
func (m *MapV) orderedEntries() []*mapEntry {
	out := append([]*mapEntry(nil), m.Entries...)
	if len(m.idx) == len(m.Entries) {
		sort.SliceStable(out, func(i, j int) bool {
			return lessKey(out[i].K, out[j].K)
		})
	}
	return out
}

func lessKey(a, b Value) bool {
	ta, ok1 := a.(*Term)
	tb, ok2 := b.(*Term)
	if ok1 && ok2 && ta.IsConst() && tb.IsConst() {
		switch ta.sort.K {
		case SBV:
			return ta.SVal() < tb.SVal()
		case SStr:
			return ta.s < tb.s
		}
	}
	sa, _ := keyString(a)
	sb, _ := keyString(b)
	return sa < sb
}

// ---------- equality ----------

func (in *Interp) eqVal(t types.Type, a, b Value) *Term {
	ts := in.ts
	switch x := a.(type) {
	case *Term:
		y, ok := b.(*Term)
		if !ok {
			panic(unsupported(fmt.Sprintf("eq term vs %T", b)))
		}
		return ts.Eq(x, y)
	case float64:
		return ts.Bool(x == b.(float64))
	case TimeV:
		return ts.Eq(x.T, b.(TimeV).T)
	case Struct:
		y := b.(Struct)
		st, _ := t.Underlying().(*types.Struct)
		r := ts.True()
		for i := range x {
			var ft types.Type
			if st != nil {
				ft = st.Field(i).Type()
			}
			r = ts.And(r, in.eqVal(ft, x[i], y[i]))
		}
		return r
	case Array:
		y := b.(Array)
		var et types.Type
		if at, ok := t.Underlying().(*types.Array); ok {
			et = at.Elem()
		}
		r := ts.True()
		for i := range x {
			r = ts.And(r, in.eqVal(et, x[i], y[i]))
		}
		return r
	case Ptr:
		y, ok := b.(Ptr)
		if !ok {
			return ts.Bool(x == nil && b == nil)
		}
		return ts.Bool(x == y)
	case Iface:
		y, ok := b.(Iface)
		if !ok {
			panic(unsupported(fmt.Sprintf("eq iface vs %T", b)))
		}
		if x.T == nil || y.T == nil {
			return ts.Bool(x.T == nil && y.T == nil)
		}
		if !types.Identical(x.T, y.T) {
			return ts.False()
		}
		return in.eqVal(x.T, x.V, y.V)
	case *MapV:
		y, _ := b.(*MapV)
		return ts.Bool(x == y)
	case *ChanV:
		y, _ := b.(*ChanV)
		return ts.Bool(x == y)
	case *Opaque:
		y, _ := b.(*Opaque)
		return ts.Bool(x == y)
	case nil:
		switch y := b.(type) {
		case nil:
			return ts.True()
		case Ptr:
			return ts.Bool(y == nil)
		case *MapV:
			return ts.Bool(y == nil)
		case Iface:
			return ts.Bool(y.T == nil)
		case SliceV:
			return ts.Bool(y.A == nil && y.Blob == nil)
		}
		return ts.False()
	case SliceV:
		// only comparison with nil is legal in Go
		if b == nil {
			return ts.Bool(x.A == nil && x.Blob == nil)
		}
		if y, ok := b.(SliceV); ok && y.A == nil && y.Blob == nil {
			return ts.Bool(x.A == nil && x.Blob == nil)
		}
		if x.A == nil && x.Blob == nil {
			y := b.(SliceV)
			return ts.Bool(y.A == nil && y.Blob == nil)
		}
	case *ssa.Function, *Closure, *ssa.Builtin, *IntrinsicFn:
		return ts.Bool(b == nil && false)
	}
	panic(unsupported(fmt.Sprintf("eqVal on %T / %T", a, b)))
}

// deepEq implements reflect.DeepEqual / bytes.Equal style structural equality as a term.
func (in *Interp) deepEq(a, b Value) *Term {
	ts := in.ts
	switch x := a.(type) {
	case SliceV:
		y, ok := b.(SliceV)
		if !ok {
			return ts.False()
		}
		if x.Blob != nil || y.Blob != nil {
			return in.blobEq(x, y)
		}
		if (x.A == nil) != (y.A == nil) && !(in.looseEq && len(x.A) == 0 && len(y.A) == 0) {
			return ts.False() // DeepEqual distinguishes nil and empty
		}
		if len(x.A) != len(y.A) {
			return ts.False()
		}
		r := ts.True()
		for i := range x.A {
			r = ts.And(r, in.deepEq(x.A[i], y.A[i]))
		}
		return r
	case Struct:
		y, ok := b.(Struct)
		if !ok || len(x) != len(y) {
			return ts.False()
		}
		r := ts.True()
		for i := range x {
			r = ts.And(r, in.deepEq(x[i], y[i]))
		}
		return r
	case Array:
		y, ok := b.(Array)
		if !ok || len(x) != len(y) {
			return ts.False()
		}
		r := ts.True()
		for i := range x {
			r = ts.And(r, in.deepEq(x[i], y[i]))
		}
		return r
	case Ptr:
		y, ok := b.(Ptr)
		if !ok {
			return ts.False()
		}
		if x == nil || y == nil {
			return ts.Bool(x == y)
		}
		if x == y {
			return ts.True()
		}
		return in.deepEq(*x, *y)
	case *MapV:
		y, ok := b.(*MapV)
		if !ok {
			return ts.False()
		}
		if x == nil || y == nil {
			if in.looseEq {
				return ts.Bool((x == nil || len(x.Entries) == 0) && (y == nil || len(y.Entries) == 0))
			}
			return ts.Bool(x == y)
		}
		if len(x.Entries) != len(y.Entries) {
			return ts.False()
		}
		if len(x.idx) != len(x.Entries) || len(y.idx) != len(y.Entries) {
			// symbolic keys: keys inside one map are pairwise distinct on this path and the sizes are equal, so the maps
			// are equal iff every entry of x has a partner in y with equal key and equal value
			r := ts.True()
			for _, ex := range x.Entries {
				any := ts.False()
				for _, ey := range y.Entries {
					any = ts.Or(any, ts.And(in.deepEq(ex.K, ey.K), in.deepEq(ex.V, ey.V)))
				}
				r = ts.And(r, any)
			}
			return r
		}
		r := ts.True()
		for k, i := range x.idx {
			j, ok := y.idx[k]
			if !ok {
				return ts.False()
			}
			r = ts.And(r, in.deepEq(x.Entries[i].V, y.Entries[j].V))
		}
		return r
	case Iface:
		y, ok := b.(Iface)
		if !ok {
			return ts.False()
		}
		if x.T == nil || y.T == nil {
			return ts.Bool(x.T == nil && y.T == nil)
		}
		if !types.Identical(x.T, y.T) {
			return ts.False()
		}
		return in.deepEq(x.V, y.V)
	case *Term:
		y, ok := b.(*Term)
		if !ok || x.sort != y.sort {
			return ts.False()
		}
		return ts.Eq(x, y)
	case TimeV:
		y, ok := b.(TimeV)
		if !ok {
			return ts.False()
		}
		return ts.Eq(x.T, y.T)
	case nil:
		return ts.Bool(b == nil)
	case float64:
		y, ok := b.(float64)
		return ts.Bool(ok && x == y)
	}
	panic(unsupported(fmt.Sprintf("deepEq on %T", a)))
}

// bytesEq: bytes.Equal semantics (nil == empty).
func (in *Interp) bytesEq(x, y SliceV) *Term {
	if x.Blob != nil || y.Blob != nil {
		return in.blobEq(x, y)
	}
	if len(x.A) != len(y.A) {
		return in.ts.False()
	}
	r := in.ts.True()
	for i := range x.A {
		r = in.ts.And(r, in.ts.Eq(x.A[i].(*Term), y.A[i].(*Term)))
	}
	return r
}

// sliceStr returns the string term for the content of a byte slice.
func (in *Interp) sliceStr(x SliceV) *Term {
	if x.Blob != nil {
		return in.blobStr(x.Blob)
	}
	parts := make([]*Term, 0, len(x.A))
	for _, e := range x.A {
		parts = append(parts, in.ts.SUnit(e.(*Term)))
	}
	return in.ts.SConcat(parts...)
}

func (in *Interp) blobEq(x, y SliceV) *Term {
	if x.Blob != nil && y.Blob != nil {
		if x.Blob == y.Blob {
			return in.ts.True()
		}
		if x.Blob.Node != nil && y.Blob.Node != nil {
			return in.jsonEq(x.Blob.Node, y.Blob.Node)
		}
	}
	return in.ts.Eq(in.sliceStr(x), in.sliceStr(y))
}
