package main

// vf.NoLeak(label, out, secrets...): information-flow obligation decided by self-composition on the terms of the path.
//
// Every leaf term L of the value `out` (fields, slice elements, JSON trees, encodings of opaque library objects) is
// rewritten into L' by replacing each secret term (symbolic seed bytes, the identity of a secret scalar) with a fresh
// symbol. The subterms under a *declassifying* library function (public point of a scalar, commitments of a polynomial,
// a ciphertext, a signature) are the only legitimate ways for an output to depend on a secret: for every maximal such
// subterm D of an output the query assumes D = D'. The obligation is
//
//      path condition  /\  (/\ D = D')   =>   (/\ L = L')  /\  path condition'
//
// i.e. two runs whose secrets differ but whose declassified values agree produce the same output and take the same path
// (no explicit and no implicit flow). It is discharged by the solver (congruence over the uninterpreted library
// functions); a model is a pair of secrets that the output distinguishes. Injectivity axioms are not instantiated on the
// primed copies (pub(s) = pub(s') must not imply s = s': secrecy is computational).

import (
	"fmt"
	"sort"
)

// declassifying library functions: the result may leave the machine
var declassify = map[string]bool{
	"kyber.pub":         true, // public point of a scalar
	"dkg.dealer.commit": true, // commitments of the dealer's secret polynomial
	"dkg.dist.commit":   true, // public polynomial of the distributed key
	"vss.sealed":        true, // share encrypted for its addressee
	"ecies.enc":         true,
	"gcm.seal":          true,
	"tbls.psig":         true, // partial BLS signature
	"bls.sig":           true,
	"ed25519.sign":      true,
	"schnorr.R":         true, // Schnorr signature: commitment of the nonce, response
	"schnorr.s":         true,
	"ed25519.pub":       true,
}

func (ts *TermStore) Subst(t *Term, m map[*Term]*Term, memo map[*Term]*Term) *Term {
	if r, ok := m[t]; ok {
		return r
	}
	if len(t.args) == 0 {
		return t
	}
	if r, ok := memo[t]; ok {
		return r
	}
	changed := false
	na := make([]*Term, len(t.args))
	for i, a := range t.args {
		na[i] = ts.Subst(a, m, memo)
		if na[i] != a {
			changed = true
		}
	}
	r := t
	if changed {
		r = ts.mk(t.op, t.sort, t.u, t.i, t.s, na...)
	}
	memo[t] = r
	return r
}

// leaves collects the terms a value consists of.
func (in *Interp) leaves(v Value, out *[]*Term, seen map[interface{}]bool, depth int) {
	if depth > 40 {
		return
	}
	switch x := v.(type) {
	case nil:
	case *Term:
		if !x.IsConst() {
			*out = append(*out, x)
		}
	case TimeV:
		if x.T != nil && !x.T.IsConst() {
			*out = append(*out, x.T)
		}
	case Struct:
		for _, e := range x {
			in.leaves(e, out, seen, depth+1)
		}
	case Array:
		for _, e := range x {
			in.leaves(e, out, seen, depth+1)
		}
	case Tuple:
		for _, e := range x {
			in.leaves(e, out, seen, depth+1)
		}
	case SliceV:
		if x.Blob != nil {
			if seen[x.Blob] {
				return
			}
			seen[x.Blob] = true
			if x.Blob.Node != nil {
				in.nodeLeaves(x.Blob.Node, out, seen, depth+1)
			} else if x.Blob.Str != nil && !x.Blob.Str.IsConst() {
				*out = append(*out, x.Blob.Str)
			}
			return
		}
		for _, e := range x.A {
			in.leaves(e, out, seen, depth+1)
		}
	case Ptr:
		if x == nil || seen[x] {
			return
		}
		seen[x] = true
		in.leaves(*x, out, seen, depth+1)
	case Iface:
		if x.T != nil {
			in.leaves(x.V, out, seen, depth+1)
		}
	case *MapV:
		if x == nil || seen[x] {
			return
		}
		seen[x] = true
		for _, e := range x.Entries {
			in.leaves(e.K, out, seen, depth+1)
			in.leaves(e.V, out, seen, depth+1)
		}
	case *Opaque:
		switch d := x.Data.(type) {
		case *kScalar:
			if d.t != nil {
				*out = append(*out, in.ts.App("kyber.scalar.enc", StrSort, d.t))
			}
		case *kPoint:
			if d.enc != nil {
				*out = append(*out, d.enc)
			}
		case *kPoly:
			*out = append(*out, d.commits...)
		}
	}
}

func (in *Interp) nodeLeaves(n *JNode, out *[]*Term, seen map[interface{}]bool, depth int) {
	if n == nil || depth > 60 {
		return
	}
	if n.T != nil && !n.T.IsConst() {
		*out = append(*out, n.T)
	}
	for _, k := range n.Keys {
		if k != nil && !k.IsConst() {
			*out = append(*out, k)
		}
	}
	for _, e := range n.Elems {
		in.nodeLeaves(e, out, seen, depth+1)
	}
	for _, e := range n.Vals {
		in.nodeLeaves(e, out, seen, depth+1)
	}
	if n.K == JBytes {
		in.leaves(n.Bytes, out, seen, depth+1)
	}
}

// secretTerms: the terms that stand for a secret value
func (in *Interp) secretTerms(v Value, out *[]*Term) {
	switch x := v.(type) {
	case SliceV:
		if x.Blob != nil {
			if x.Blob.Str != nil && !x.Blob.Str.IsConst() {
				s := x.Blob.Str
				// the encoding of a scalar: the scalar itself is the secret
				if s.op == OApp && s.s == "kyber.scalar.enc" {
					*out = append(*out, s.args[0])
				}
				*out = append(*out, s)
			}
			return
		}
		for _, e := range x.A {
			if t, ok := e.(*Term); ok && !t.IsConst() {
				*out = append(*out, t)
			}
		}
	case Iface:
		if x.T == nil {
			return
		}
		in.secretTerms(x.V, out)
	case Ptr:
		if x != nil {
			in.secretTerms(*x, out)
		}
	case Struct:
		for _, e := range x {
			in.secretTerms(e, out)
		}
	case *Opaque:
		if d, ok := x.Data.(*kScalar); ok && d.t != nil && !d.t.IsConst() {
			*out = append(*out, d.t)
		}
	case *Term:
		if !x.IsConst() {
			*out = append(*out, x)
		}
	}
}

// maximal declassified subterms of t that change under the substitution
func (in *Interp) declassified(t *Term, m, memo map[*Term]*Term, acc map[*Term]*Term, seen map[*Term]bool) {
	if seen[t] || len(t.args) == 0 {
		return
	}
	seen[t] = true
	if _, isSecret := m[t]; isSecret {
		return
	}
	if t.op == OApp && declassify[t.s] {
		if p := in.ts.Subst(t, m, memo); p != t {
			acc[t] = p
		}
		return
	}
	for _, a := range t.args {
		in.declassified(a, m, memo, acc, seen)
	}
}

func (in *Interp) noLeak(label string, out Value, secrets []Value) {
	ts := in.ts
	var sec []*Term
	for _, s := range secrets {
		in.secretTerms(s, &sec)
	}
	m := map[*Term]*Term{}
	for _, s := range sec {
		if _, ok := m[s]; ok || len(s.args) == 0 && s.op != OSym {
			continue
		}
		in.opq++
		m[s] = ts.FreshSym(fmt.Sprintf("alt!%d", in.opq), s.sort)
	}
	if len(m) == 0 {
		// nothing symbolic to protect: the obligation would be vacuous - say so instead of passing silently
		in.res.note("vf.NoLeak " + label + ": no symbolic secret given")
		in.assert(label, ts.True())
		return
	}
	before := len(ts.tab)
	_ = before
	memo := map[*Term]*Term{}
	var ls []*Term
	in.leaves(out, &ls, map[interface{}]bool{}, 0)
	decl := map[*Term]*Term{}
	seen := map[*Term]bool{}
	same := ts.True()
	uniq := map[*Term]bool{}
	for _, l := range ls {
		if uniq[l] {
			continue
		}
		uniq[l] = true
		lp := ts.Subst(l, m, memo)
		if lp == l {
			continue
		}
		in.declassified(l, m, memo, decl, seen)
		same = ts.And(same, ts.Eq(l, lp))
	}
	// implicit flows: the path condition of the primed run must follow
	pcSame := ts.True()
	domain := ts.True() // constraints on the secrets themselves (harness assumptions): the other run's secrets satisfy them too
	for _, c := range in.pc {
		cp := ts.Subst(c, m, memo)
		if cp == c {
			continue
		}
		if onlySecrets(c, m, map[*Term]bool{}) {
			domain = ts.And(domain, cp)
			continue
		}
		in.declassified(c, m, memo, decl, seen)
		pcSame = ts.And(pcSame, cp)
	}
	if in.altTerms == nil {
		in.altTerms = map[*Term]bool{}
	}
	for o, p := range memo {
		if o != p {
			in.altTerms[p] = true
		}
	}
	keys := make([]*Term, 0, len(decl))
	for d := range decl {
		keys = append(keys, d)
	}
	sort.Slice(keys, func(i, j int) bool { return keys[i].id < keys[j].id })
	hyp := domain
	for _, d := range keys {
		hyp = ts.And(hyp, ts.Eq(d, decl[d]))
	}
	in.assert(label, ts.Implies(hyp, same))
	in.assert(label+":control", ts.Implies(hyp, pcSame))
}

// onlySecrets: every free symbol / library application below t is one of the secret terms (a constraint on the secrets' domain)
func onlySecrets(t *Term, m map[*Term]*Term, seen map[*Term]bool) bool {
	if _, ok := m[t]; ok {
		return true
	}
	if seen[t] {
		return true
	}
	seen[t] = true
	switch t.op {
	case OConst:
		return true
	case OSym:
		return false
	case OApp:
		if t.s != "len!" {
			return false
		}
	}
	for _, a := range t.args {
		if !onlySecrets(a, m, seen) {
			return false
		}
	}
	return true
}
