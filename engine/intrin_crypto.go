package main

// Hashes, signatures and other crypto primitives as uninterpreted functions / contract stubs.

import (
	"crypto/sha512"

	bip39 "github.com/tyler-smith/go-bip39"
	"golang.org/x/crypto/pbkdf2"

	"crypto/ed25519"
	"crypto/md5"
	"crypto/sha1"
	"crypto/sha256"
	"fmt"
	"go/types"

	"golang.org/x/tools/go/ssa"
)

func (in *Interp) hashUF(name string, n int, data SliceV, native func([]byte) []byte) Array {
	if b, ok := concBytes(data); ok {
		h := native(b)
		in.noteConcrete(name, string(b), string(h))
		a := make(Array, n)
		for i := range a {
			a[i] = in.ts.BV(8, uint64(h[i]))
		}
		return a
	}
	s := in.ufBytes(name, n, in.sliceStr(data))
	return Array(s.A)
}

func registerCrypto(P *Program) {
	r := P.reg
	r("crypto/md5.Sum", func(in *Interp, caller *frame, fn *ssa.Function, args []Value) Value {
		return in.hashUF("md5", 16, args[0].(SliceV), func(b []byte) []byte { h := md5.Sum(b); return h[:] })
	})
	r("crypto/sha1.Sum", func(in *Interp, caller *frame, fn *ssa.Function, args []Value) Value {
		return in.hashUF("sha1", 20, args[0].(SliceV), func(b []byte) []byte { h := sha1.Sum(b); return h[:] })
	})
	r("crypto/sha256.Sum256", func(in *Interp, caller *frame, fn *ssa.Function, args []Value) Value {
		return in.hashUF("sha256", 32, args[0].(SliceV), func(b []byte) []byte { h := sha256.Sum256(b); return h[:] })
	})
	r("github.com/minio/sha256-simd.Sum256", func(in *Interp, caller *frame, fn *ssa.Function, args []Value) Value {
		return in.hashUF("sha256", 32, args[0].(SliceV), func(b []byte) []byte { h := sha256.Sum256(b); return h[:] })
	})
	// streaming sha256 (hash.Hash): an engine object that buffers what is written; Sum = UF/native over the buffer
	newHash := func(in *Interp, caller *frame, fn *ssa.Function, args []Value) Value {
		return Iface{T: types.Typ[types.Int], V: &Opaque{Kind: "sha256.hash", Data: &bufObj{}}}
	}
	r("github.com/minio/sha256-simd.New", newHash)
	r("crypto/sha256.New", newHash)
	opaqueMethods["sha256.hash.Write"] = func(in *Interp, op *Opaque, args []Value) Value {
		s := args[0].(SliceV)
		b := op.Data.(*bufObj)
		if s.Blob == nil {
			s = SliceV{A: append([]Value{}, s.A...)} // snapshot: callers reuse their buffers
		}
		b.parts = append(b.parts, s)
		return Tuple{in.lenTerm(s), Iface{}}
	}
	opaqueMethods["sha256.hash.Reset"] = func(in *Interp, op *Opaque, args []Value) Value {
		op.Data.(*bufObj).parts = nil
		return nil
	}
	opaqueMethods["sha256.hash.Sum"] = func(in *Interp, op *Opaque, args []Value) Value {
		data := in.bufBytes(op.Data.(*bufObj))
		h := in.hashUF("sha256", 32, data, func(b []byte) []byte { x := sha256.Sum256(b); return x[:] })
		return in.appendSlices(args[0].(SliceV), SliceV{A: []Value(h)})
	}
	opaqueMethods["sha256.hash.Size"] = func(in *Interp, op *Opaque, args []Value) Value { return in.ts.BV(64, 32) }
	opaqueMethods["sha256.hash.BlockSize"] = func(in *Interp, op *Opaque, args []Value) Value { return in.ts.BV(64, 64) }
	// sync.Pool: never retains anything
	r("(*sync.Pool).Get", func(in *Interp, caller *frame, fn *ssa.Function, args []Value) Value {
		p := args[0].(Ptr)
		if p != nil {
			if st, ok := (*p).(Struct); ok {
				// field "New" is the last field of sync.Pool
				if newFn := st[len(st)-1]; newFn != nil {
					return in.callValue(caller, newFn, nil, nil)
				}
			}
		}
		return Iface{}
	})
	r("(*sync.Pool).Put", func(in *Interp, caller *frame, fn *ssa.Function, args []Value) Value { return nil })
	// ed25519: Verify is an uninterpreted predicate over (pk, msg, sig); Sign(sk,msg) is a UF with
	// Verify(pub(sk), m, Sign(sk,m)) (asserted when Sign is called).
	r("crypto/ed25519.Verify", func(in *Interp, caller *frame, fn *ssa.Function, args []Value) Value {
		pk, msg, sig := args[0].(SliceV), args[1].(SliceV), args[2].(SliceV)
		pkb, ok1 := concBytes(pk)
		mb, ok2 := concBytes(msg)
		sb, ok3 := concBytes(sig)
		if ok1 && ok2 && ok3 {
			if len(pkb) != ed25519.PublicKeySize {
				panic(&goPanic{msg: "ed25519: bad public key length", stack: in.stack()})
			}
			return in.ts.Bool(ed25519.Verify(pkb, mb, sb))
		}
		if ok1 && len(pkb) != ed25519.PublicKeySize {
			panic(&goPanic{msg: "ed25519: bad public key length", stack: in.stack()})
		}
		return in.ts.App("ed25519.verify", BoolSort, in.sliceStr(pk), in.sliceStr(msg), in.sliceStr(sig))
	})
	r("crypto/ed25519.Sign", func(in *Interp, caller *frame, fn *ssa.Function, args []Value) Value {
		sk, msg := args[0].(SliceV), args[1].(SliceV)
		skb, ok1 := concBytes(sk)
		mb, ok2 := concBytes(msg)
		if ok1 && ok2 && len(skb) == ed25519.PrivateKeySize {
			return in.mkBytes(ed25519.Sign(skb, mb))
		}
		skS, msgS := in.sliceStr(sk), in.sliceStr(msg)
		sig := in.ts.App("ed25519.sign", StrSort, skS, msgS)
		var pub *Term
		if ok1 && len(skb) == ed25519.PrivateKeySize {
			pub = in.ts.Str(string(skb[32:]))
		} else {
			pub = in.ts.App("ed25519.pub", StrSort, skS)
		}
		in.addPC(in.ts.App("ed25519.verify", BoolSort, pub, msgS, sig))
		return SliceV{Blob: in.strBlob(sig)}
	})
	r("crypto/ed25519.NewKeyFromSeed", func(in *Interp, caller *frame, fn *ssa.Function, args []Value) Value {
		seed, ok := concBytes(args[0].(SliceV))
		if !ok || len(seed) != ed25519.SeedSize {
			panic(unsupported("ed25519.NewKeyFromSeed with symbolic seed"))
		}
		return in.mkBytes(ed25519.NewKeyFromSeed(seed))
	})
	r("(crypto/ed25519.PrivateKey).Public", func(in *Interp, caller *frame, fn *ssa.Function, args []Value) Value {
		sk, ok := concBytes(args[0].(SliceV))
		if !ok || len(sk) != ed25519.PrivateKeySize {
			panic(unsupported("PrivateKey.Public symbolic"))
		}
		t := in.P.namedType("crypto/ed25519", "PublicKey")
		return Iface{T: t, V: in.mkBytes(sk[32:])}
	})
	r("(crypto/ed25519.PublicKey).Equal", func(in *Interp, caller *frame, fn *ssa.Function, args []Value) Value {
		x := args[0].(SliceV)
		y, ok := args[1].(Iface)
		if !ok || y.T == nil {
			return in.ts.False()
		}
		ys, ok := y.V.(SliceV)
		if !ok {
			return in.ts.False()
		}
		return in.bytesEq(x, ys)
	})
	// bip39 / pbkdf2: evaluated natively on concrete arguments (mnemonics are operator input, fixed in harnesses)
	r("github.com/tyler-smith/go-bip39.NewEntropy", func(in *Interp, caller *frame, fn *ssa.Function, args []Value) Value {
		n := in.concreteInt(args[0].(*Term), "bip39.NewEntropy")
		in.opq++
		a := make([]Value, n/8)
		for i := range a {
			a[i] = in.ts.FreshSym(fmt.Sprintf("entropy%d[%d]", in.opq, i), BVSort(8))
		}
		return Tuple{SliceV{A: a}, Iface{}}
	})
	r("github.com/tyler-smith/go-bip39.NewMnemonic", func(in *Interp, caller *frame, fn *ssa.Function, args []Value) Value {
		in.injUFs["bip39.mnemonic"] = true
		return Tuple{in.ts.App("bip39.mnemonic", StrSort, in.sliceStr(args[0].(SliceV))), Iface{}}
	})
	r("github.com/tyler-smith/go-bip39.EntropyFromMnemonic", func(in *Interp, caller *frame, fn *ssa.Function, args []Value) Value {
		m := args[0].(*Term)
		if m.IsConst() {
			e, err := bip39.EntropyFromMnemonic(m.s)
			if err != nil {
				return Tuple{SliceV{}, in.newError(in.ts.Str(err.Error()))}
			}
			return Tuple{in.mkBytes(e), Iface{}}
		}
		if in.branch(nil, nil, in.ts.App("bip39.valid", BoolSort, m)) {
			return Tuple{SliceV{Blob: in.strBlob(in.ts.App("bip39.entropy", StrSort, m))}, Iface{}}
		}
		return Tuple{SliceV{}, in.newError(in.ts.Str("Invalid mnenomic"))}
	})
	r("golang.org/x/crypto/pbkdf2.Key", func(in *Interp, caller *frame, fn *ssa.Function, args []Value) Value {
		pw, ok1 := concBytes(args[0].(SliceV))
		salt, ok2 := concBytes(args[1].(SliceV))
		iter, _ := cint(args[2])
		kl, _ := cint(args[3])
		if ok1 && ok2 {
			return in.mkBytes(pbkdf2.Key(pw, salt, int(iter), int(kl), sha512.New))
		}
		return in.ufBytes("pbkdf2", int(kl), in.sliceStr(args[0].(SliceV)), in.sliceStr(args[1].(SliceV)))
	})
	r("github.com/google/uuid.New", func(in *Interp, caller *frame, fn *ssa.Function, args []Value) Value {
		in.opq++
		a := make(Array, 16)
		var whole *Term
		for i := range a {
			b := in.ts.FreshSym(fmt.Sprintf("uuid%d[%d]", in.opq, i), BVSort(8))
			a[i] = b
			if whole == nil {
				whole = b
			} else {
				whole = in.ts.Concat(whole, b)
			}
		}
		// contract of a random UUID: it differs from every UUID drawn before on this path
		prev, _ := in.hooks["uuids"].([]*Term)
		for _, p := range prev {
			in.addPC(in.ts.Not(in.ts.Eq(p, whole)))
		}
		in.hooks["uuids"] = append(prev, whole)
		return a
	})
	r("(github.com/google/uuid.UUID).String", func(in *Interp, caller *frame, fn *ssa.Function, args []Value) Value {
		a := args[0].(Array)
		var parts []*Term
		for _, e := range a {
			parts = append(parts, in.ts.SUnit(e.(*Term)))
		}
		in.injUFs["uuidstr"] = true
		u := in.ts.App("uuidstr", StrSort, in.ts.SConcat(parts...))
		return u
	})
}

// noteConcrete remembers a native evaluation f(in) = out of a function that is otherwise an uninterpreted symbol, so that
// the injectivity assumption also relates symbolic applications to concrete results (f(x) = out => x = in).
type concPair struct{ in, out string }

func (in *Interp) noteConcrete(name, arg, res string) {
	key := "conc:" + name
	l, _ := in.hooks[key].(*[]concPair)
	if l == nil {
		l = &[]concPair{}
		in.hooks[key] = l
	}
	for _, p := range *l {
		if p.in == arg {
			return
		}
	}
	if len(*l) < 64 {
		*l = append(*l, concPair{arg, res})
	}
}
