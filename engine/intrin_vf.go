package main

// The vf shim: the only API a harness uses. Symbolic meaning implemented here; native twin in /verif/vf/native.

import (
	"fmt"
	"go/types"
	"strconv"
	"strings"

	"golang.org/x/tools/go/ssa"
)

const vfPkg = modPath + "/internal/vf"

func argStr(v Value) string {
	t, ok := v.(*Term)
	if !ok || !t.IsConst() || t.sort.K != SStr {
		panic(unsupported("vf: name/label argument must be a concrete string"))
	}
	return t.s
}

func registerVF(P *Program) {
	r := func(name string, h func(in *Interp, args []Value) Value) {
		P.reg(vfPkg+"."+name, func(in *Interp, caller *frame, fn *ssa.Function, args []Value) Value { return h(in, args) })
	}
	bvSym := func(w int) func(in *Interp, args []Value) Value {
		return func(in *Interp, args []Value) Value { return in.ts.FreshSym(argStr(args[0]), BVSort(w)) }
	}
	r("Int", bvSym(64))
	r("Int64", bvSym(64))
	r("Uint64", bvSym(64))
	r("Uint8", bvSym(8))
	r("Byte", bvSym(8))
	r("Bool", func(in *Interp, args []Value) Value { return in.ts.FreshSym(argStr(args[0]), BoolSort) })
	r("Str", func(in *Interp, args []Value) Value { return in.ts.FreshSym(argStr(args[0]), StrSort) })
	r("Time", func(in *Interp, args []Value) Value {
		t := in.ts.FreshSym(argStr(args[0]), IntSort)
		// real (non-zero) timestamps are after the zero sentinel and within int64 ns range
		in.addPC(in.ts.ILt(in.ts.Int(realTimeLo), t))
		in.addPC(in.ts.ILt(t, in.ts.Int(realTimeHi)))
		return TimeV{t}
	})
	r("TimeZ", func(in *Interp, args []Value) Value {
		// a timestamp that may also be the zero time
		t := in.ts.FreshSym(argStr(args[0]), IntSort)
		in.addPC(in.ts.Or(in.ts.Eq(t, in.ts.Int(zeroTimeNs)),
			in.ts.And(in.ts.ILt(in.ts.Int(realTimeLo), t), in.ts.ILt(t, in.ts.Int(realTimeHi)))))
		return TimeV{t}
	})
	r("ZeroTime", func(in *Interp, args []Value) Value { return TimeV{in.ts.Int(zeroTimeNs)} })
	r("Bytes", func(in *Interp, args []Value) Value {
		name := argStr(args[0])
		n := in.concreteInt(args[1].(*Term), "vf.Bytes n")
		a := make([]Value, n)
		for i := range a {
			a[i] = in.ts.FreshSym(fmt.Sprintf("%s[%d]", name, i), BVSort(8))
		}
		return SliceV{A: a}
	})
	r("OpaqueBytes", func(in *Interp, args []Value) Value {
		name := argStr(args[0])
		for i := 0; ; i++ {
			n := name
			if i > 0 {
				n = fmt.Sprintf("%s#%d", name, i)
			}
			if _, taken := in.ts.syms[n]; !taken {
				in.ts.big[n] = true
				break
			}
		}
		s := in.ts.FreshSym(name, StrSort)
		in.addPC(in.ts.ILe(in.ts.Int(0), in.ts.SLen(s)))
		return SliceV{Blob: in.strBlob(s)}
	})
	r("Choose", func(in *Interp, args []Value) Value {
		name := argStr(args[0])
		n := in.concreteInt(args[1].(*Term), "vf.Choose n")
		return in.ts.BV(64, uint64(in.namedChoice(name, n)))
	})
	r("Assume", func(in *Interp, args []Value) Value {
		c := args[0].(*Term)
		if c.IsConst() {
			if !c.BoolVal() {
				panic(pathInfeasible{})
			}
			return nil
		}
		in.addPC(c)
		if in.feasible() == Unsat {
			panic(pathInfeasible{})
		}
		return nil
	})
	r("Assert", func(in *Interp, args []Value) Value {
		in.assert(argStr(args[0]), args[1].(*Term))
		return nil
	})
	r("Unreachable", func(in *Interp, args []Value) Value {
		in.assert(argStr(args[0]), in.ts.False())
		return nil
	})
	r("Record", func(in *Interp, args []Value) Value {
		rec := Record{Key: argStr(args[0])}
		if len(args) > 1 {
			if sl, ok := args[1].(SliceV); ok {
				for _, e := range sl.A {
					rec.Vals = append(rec.Vals, in.show(e))
				}
			}
		}
		in.res.Records = append(in.res.Records, rec)
		return nil
	})
	r("Param", func(in *Interp, args []Value) Value {
		return in.ts.Str(in.params[argStr(args[0])]) // missing parameter = ""
	})
	r("ParamInt", func(in *Interp, args []Value) Value {
		v, ok := in.params[argStr(args[0])]
		if !ok {
			panic(unsupported("vf.ParamInt: missing parameter " + argStr(args[0])))
		}
		n, err := strconv.Atoi(v)
		if err != nil {
			panic(unsupported("vf.ParamInt: bad int " + v))
		}
		return in.ts.BV(64, uint64(int64(n)))
	})
	r("Stop", func(in *Interp, args []Value) Value { panic(pathDone{"vf.Stop"}) })
	r("Symbolic", func(in *Interp, args []Value) Value { return in.ts.True() })
	r("And", func(in *Interp, args []Value) Value {
		res := in.ts.True()
		for _, e := range args[0].(SliceV).A {
			res = in.ts.And(res, e.(*Term))
		}
		return res
	})
	r("Or", func(in *Interp, args []Value) Value {
		res := in.ts.False()
		for _, e := range args[0].(SliceV).A {
			res = in.ts.Or(res, e.(*Term))
		}
		return res
	})
	r("Implies", func(in *Interp, args []Value) Value { return in.ts.Implies(args[0].(*Term), args[1].(*Term)) })
	r("Not", func(in *Interp, args []Value) Value { return in.ts.Not(args[0].(*Term)) })
	r("Iff", func(in *Interp, args []Value) Value { return in.ts.Eq(args[0].(*Term), args[1].(*Term)) })
	r("Eq", func(in *Interp, args []Value) Value { return in.deepEq(args[0], args[1]) })
	r("NoLeak", func(in *Interp, args []Value) Value {
		var secrets []Value
		if sl, ok := args[2].(SliceV); ok {
			secrets = sl.A
		}
		in.noLeak(argStr(args[0]), args[1], secrets)
		return nil
	})
	r("EqLoose", func(in *Interp, args []Value) Value {
		in.looseEq = true
		defer func() { in.looseEq = false }()
		return in.deepEq(args[0], args[1])
	})
	r("BytesEq", func(in *Interp, args []Value) Value { return in.bytesEq(args[0].(SliceV), args[1].(SliceV)) })
	r("StrEq", func(in *Interp, args []Value) Value { return in.ts.Eq(args[0].(*Term), args[1].(*Term)) })
	r("IteInt", func(in *Interp, args []Value) Value {
		return in.ts.Ite(args[0].(*Term), args[1].(*Term), args[2].(*Term))
	})
	r("Decide", func(in *Interp, args []Value) Value {
		// explicit case split on a condition; returns a concrete bool
		return in.ts.Bool(in.branch(nil, nil, args[0].(*Term)))
	})
	r("Concrete", func(in *Interp, args []Value) Value {
		// case-split an int into its feasible concrete values
		t := args[0].(*Term)
		return in.ts.BV(64, in.forkValues(t, 256))
	})
	r("Injective", func(in *Interp, args []Value) Value {
		in.injUFs[argStr(args[0])] = true
		return nil
	})
	r("UFBytes", func(in *Interp, args []Value) Value {
		// UFBytes(name, n, inputs ...[]byte) []byte : n bytes, an uninterpreted function of the inputs
		name := argStr(args[0])
		n := in.concreteInt(args[1].(*Term), "vf.UFBytes n")
		var ins []*Term
		for _, e := range args[2].(SliceV).A {
			ins = append(ins, in.sliceStr(e.(SliceV)))
		}
		return in.ufBytes(name, n, ins...)
	})
	r("UFBool", func(in *Interp, args []Value) Value {
		name := argStr(args[0])
		var ins []*Term
		for _, e := range args[1].(SliceV).A {
			ins = append(ins, in.sliceStr(e.(SliceV)))
		}
		return in.ts.App(name, BoolSort, ins...)
	})
	r("RegisterUFBytes", func(in *Interp, args []Value) Value { return nil })
	r("RegisterUFBool", func(in *Interp, args []Value) Value { return nil })
	r("Reset", func(in *Interp, args []Value) Value { return nil })
	P.reg(vfPkg+".Par", func(in *Interp, caller *frame, fn *ssa.Function, args []Value) Value {
		in.vfPar(caller, args[0], args[1])
		return nil
	})
	r("Permute", func(in *Interp, args []Value) Value {
		on := args[0].(*Term).BoolVal()
		if in.params["permute_mode"] == "all" {
			in.permute = on
		} else {
			in.reverse = on // default: the reversed order of every map (all maps at once)
		}
		return nil
	})
	r("Yield", func(in *Interp, args []Value) Value { in.vfYield(); return nil })
	r("Note", func(in *Interp, args []Value) Value { in.res.note(argStr(args[0])); return nil })
	r("Now", func(in *Interp, args []Value) Value { return TimeV{in.now()} })
}

// namedChoice: an n-way choice point recorded under a (disambiguated) name so that native replays can follow it.
func (in *Interp) namedChoice(name string, n int) int {
	c := in.choice(n)
	key := name
	for i := 1; ; i++ {
		if _, dup := in.choices[key]; !dup {
			break
		}
		key = fmt.Sprintf("%s#%d", name, i)
	}
	in.choices[key] = c
	return c
}

func (in *Interp) ufBytes(name string, n int, ins ...*Term) SliceV {
	big := in.ts.App(name, BVSort(8*n), ins...)
	if 8*n > 64 && false {
		_ = big
	}
	a := make([]Value, n)
	for i := 0; i < n; i++ {
		hi := 8*(n-i) - 1
		a[i] = in.ts.Extract(hi, hi-7, big)
	}
	return SliceV{A: a}
}

func (in *Interp) assert(label string, c *Term) {
	ar := AssertResult{Label: label}
	if c.IsConst() && c.BoolVal() {
		ar.Verdict = "proved"
		ar.Detail = "constant"
		in.res.Asserts = append(in.res.Asserts, ar)
		return
	}
	r, m := in.sol.Check(append(in.axioms(), in.ts.Not(c)), true)
	switch r {
	case Unsat:
		ar.Verdict = "proved"
	case Sat:
		ar.Verdict = "failed"
		// prefer a counterexample whose strings are short printable ASCII (replays go through encoding/json, which does
		// not preserve invalid UTF-8); this only selects among models, it never changes a verdict
		if label == "witness" || strings.HasPrefix(label, "witness:") {
			// reachability twins are never replayed: any model will do
		} else if r2, m2 := in.sol.CheckBrief(append(in.niceStrings(), in.ts.Not(c)), true, 5000); r2 == Sat {
			m = m2
		}
		ar.Model = m
		ar.Choices = map[string]int{}
		for k, v := range in.choices {
			ar.Choices[k] = v
		}
	default:
		ar.Verdict = "unknown"
		in.res.Inconclusive = true
	}
	in.res.Asserts = append(in.res.Asserts, ar)
}

// niceStrings: constraints that make every (non-abstract) string symbol short printable ASCII.
func (in *Interp) niceStrings() []*Term {
	ts := in.ts
	var out []*Term
	for _, name := range ts.order {
		t := ts.syms[name]
		if t.sort.K != SStr || ts.big[name] {
			continue
		}
		const maxLen = 10
		out = append(out, ts.ILe(ts.SLen(t), ts.Int(maxLen)))
		for i := 0; i < maxLen; i++ {
			ch := ts.SAt(t, ts.Int(int64(i)))
			inside := ts.ILt(ts.Int(int64(i)), ts.SLen(t))
			printable := ts.And(ts.BvUle(ts.BV(8, 0x30), ch), ts.BvUle(ch, ts.BV(8, 0x7a)), ts.Not(ts.Eq(ch, ts.BV(8, 0x5c))))
			out = append(out, ts.Implies(inside, printable))
		}
	}
	return out
}

// show renders a value for Record output.
func (in *Interp) show(v Value) string {
	switch x := v.(type) {
	case Iface:
		if x.T == nil {
			return "nil"
		}
		return in.show(x.V)
	case *Term:
		if x.IsConst() {
			switch x.sort.K {
			case SBool:
				return strconv.FormatBool(x.BoolVal())
			case SBV:
				return strconv.FormatInt(x.SVal(), 10)
			case SInt:
				return strconv.FormatInt(x.i, 10)
			case SStr:
				return x.s
			}
		}
		return "<sym:" + in.ts.Print(x) + ">"
	case TimeV:
		return "time:" + in.show(x.T)
	case SliceV:
		if x.Blob != nil {
			return "<blob>"
		}
		var parts []string
		for _, e := range x.A {
			parts = append(parts, in.show(e))
		}
		return "[" + strings.Join(parts, " ") + "]"
	case Struct:
		var parts []string
		for _, e := range x {
			parts = append(parts, in.show(e))
		}
		return "{" + strings.Join(parts, " ") + "}"
	case Ptr:
		if x == nil {
			return "nil"
		}
		return "&" + in.show(*x)
	case nil:
		return "nil"
	}
	return fmt.Sprintf("<%T>", v)
}

var _ = types.Typ
