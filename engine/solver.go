package main

// SMT solver pipe: one long-lived process per worker, SMT-LIB2 text protocol.

import (
	"os"
	"bufio"
	"fmt"
	"io"
	"os/exec"
	"strconv"
	"strings"
	"time"
)

type SatResult int

const (
	Unsat SatResult = iota
	Sat
	Unknown
)

func (r SatResult) String() string { return [...]string{"unsat", "sat", "unknown"}[r] }

type Solver struct {
	kind   string // z3 | z3-new | cvc5
	cmd    *exec.Cmd
	in     io.WriteCloser
	out    *bufio.Reader
	ts     *TermStore
	decl   map[string]bool // declared symbols (base level)
	declUF map[string]bool
	// stats
	Queries   int
	SolveTime time.Duration
	Errors    []string
	timeoutMs int
	Retries   int
	log       io.Writer
	dead      bool
	// live transcript (declarations and assertions still in force), for handing a query to the fallback solver
	live  []string
	marks []int
	fb    *Solver
	Fallbacks int
}

func NewSolver(kind string, timeoutMs int) (*Solver, error) {
	var cmd *exec.Cmd
	switch kind {
	case "z3", "":
		kind = "z3"
		cmd = exec.Command("z3", "-in")
	case "z3-new":
		cmd = exec.Command("z3-new", "-in")
	case "cvc5":
		cmd = exec.Command("cvc5", "--incremental", "--lang=smt2", "--produce-models", "--strings-exp",
			fmt.Sprintf("--tlimit-per=%d", timeoutMs))
	default:
		return nil, fmt.Errorf("unknown solver %q", kind)
	}
	in, err := cmd.StdinPipe()
	if err != nil {
		return nil, err
	}
	outp, err := cmd.StdoutPipe()
	if err != nil {
		return nil, err
	}
	cmd.Stderr = nil
	if err := cmd.Start(); err != nil {
		return nil, err
	}
	s := &Solver{kind: kind, cmd: cmd, in: in, out: bufio.NewReaderSize(outp, 1<<16), timeoutMs: timeoutMs}
	s.Reset(nil)
	return s, nil
}

func (s *Solver) Close() {
	if s.fb != nil {
		s.fb.Close()
		s.fb = nil
	}
	if s.cmd != nil {
		s.in.Close()
		s.cmd.Process.Kill()
		s.cmd.Wait()
		s.cmd = nil
	}
}

// Restart replaces a dead solver process.
func (s *Solver) Restart() error {
	n, err := NewSolver(s.kind, s.timeoutMs)
	if err != nil {
		return err
	}
	s.Close()
	n.Queries, n.SolveTime, n.Errors, n.log = s.Queries, s.SolveTime, s.Errors, s.log
	*s = *n
	return nil
}

func (s *Solver) send(line string) {
	if s.dead {
		return
	}
	if s.log != nil {
		fmt.Fprintln(s.log, line)
	}
	io.WriteString(s.in, line)
	io.WriteString(s.in, "\n")
	switch {
	case line == "(reset)":
		s.live, s.marks = s.live[:0], s.marks[:0]
	case line == "(push 1)":
		s.marks = append(s.marks, len(s.live))
	case line == "(pop 1)":
		if n := len(s.marks); n > 0 {
			s.live = s.live[:s.marks[n-1]]
			s.marks = s.marks[:n-1]
		}
	case strings.HasPrefix(line, "(declare-") || strings.HasPrefix(line, "(assert ") || strings.HasPrefix(line, "(define-"):
		s.live = append(s.live, line)
	}
}

// fallback decides the current assertion stack with the other z3 (5.x digests some sequence problems that 4.8 does not,
// and vice versa). The verdict of either solver is taken; both must stay silent for "unknown".
func (s *Solver) fallback(wantModel bool) (SatResult, map[string]ModelVal) {
	if s.kind != "z3" {
		return Unknown, nil
	}
	if s.fb == nil || s.fb.dead {
		if s.fb != nil {
			s.fb.Close()
		}
		fb, err := NewSolver("z3-new", s.timeoutMs)
		if err != nil {
			return Unknown, nil
		}
		s.fb = fb
	}
	fb := s.fb
	fb.Reset(s.ts)
	fb.decl, fb.declUF = s.decl, s.declUF
	for _, l := range s.live {
		fb.send(l)
	}
	r := fb.checkSat()
	s.SolveTime += fb.SolveTime
	fb.SolveTime = 0
	s.Fallbacks++
	var m map[string]ModelVal
	if r == Sat && wantModel {
		m = fb.getModel()
	}
	fb.decl, fb.declUF = map[string]bool{}, map[string]bool{}
	return r, m
}

// Reset clears all assertions and declarations; binds the solver to a (new) term store.
func (s *Solver) Reset(ts *TermStore) {
	s.ts = ts
	s.decl = map[string]bool{}
	s.declUF = map[string]bool{}
	s.send("(reset)")
	if s.kind == "cvc5" {
		s.send("(set-logic ALL)")
	} else {
		s.send(fmt.Sprintf("(set-option :timeout %d)", s.timeoutMs))
	}
	s.send("(set-option :produce-models true)")
}

// readSexpr reads one s-expression or atom from solver output.
func (s *Solver) readSexpr() (string, error) {
	var sb strings.Builder
	depth := 0
	started := false
	inStr := false
	inBar := false
	for {
		c, err := s.out.ReadByte()
		if err != nil {
			return sb.String(), err
		}
		if !started {
			if c == ' ' || c == '\n' || c == '\r' || c == '\t' {
				continue
			}
			started = true
		}
		sb.WriteByte(c)
		if inStr {
			if c == '"' {
				inStr = false
			}
			continue
		}
		if inBar {
			if c == '|' {
				inBar = false
			}
			continue
		}
		switch c {
		case '"':
			inStr = true
		case '|':
			inBar = true
		case '(':
			depth++
		case ')':
			depth--
			if depth == 0 {
				return sb.String(), nil
			}
		case '\n', ' ':
			if depth == 0 {
				return strings.TrimSpace(sb.String()), nil
			}
		}
	}
}

func (s *Solver) declare(t *Term) {
	syms := map[string]*Term{}
	ufs := map[string]bool{}
	collect(t, map[int]bool{}, syms, ufs)
	for _, n := range sortedKeys(syms) {
		if !s.decl[n] {
			s.decl[n] = true
			s.send(fmt.Sprintf("(declare-fun %s () %s)", smtSymName(n), syms[n].sort))
		}
	}
	for _, n := range sortedKeys(ufs) {
		if !s.declUF[n] {
			s.declUF[n] = true
			d := s.ts.ufs[n]
			var as []string
			for _, a := range d.Args {
				as = append(as, a.String())
			}
			s.send(fmt.Sprintf("(declare-fun %s (%s) %s)", smtSymName(n), strings.Join(as, " "), d.Res))
		}
	}
}

// Assert adds a permanent (until Reset) assertion at base level.
func (s *Solver) Assert(t *Term) {
	if t.IsConst() && t.BoolVal() {
		return
	}
	s.declare(t)
	s.send("(assert " + s.ts.Print(t) + ")")
}

func (s *Solver) checkSat() SatResult {
	if s.dead {
		return Unknown
	}
	t0 := time.Now()
	s.send("(check-sat)")
	// watchdog: some theories ignore the solver-side timeout; kill the process when it overruns
	timer := time.AfterFunc(time.Duration(s.timeoutMs)*time.Millisecond+10*time.Second, func() {
		s.dead = true
		if s.cmd != nil && s.cmd.Process != nil {
			s.cmd.Process.Kill()
		}
	})
	r, err := s.readSexpr()
	timer.Stop()
	s.SolveTime += time.Since(t0)
	s.Queries++
	if err != nil {
		s.Errors = append(s.Errors, "solver died: "+err.Error())
		return Unknown
	}
	switch r {
	case "sat":
		return Sat
	case "unsat":
		return Unsat
	case "unknown":
		return Unknown
	}
	s.Errors = append(s.Errors, r)
	return Unknown
}

// Check decides satisfiability of (asserted ∧ extra...). If wantModel and sat, returns values for syms.
func (s *Solver) Check(extra []*Term, wantModel bool) (SatResult, map[string]ModelVal) {
	for _, e := range extra {
		s.declare(e)
	}
	s.send("(push 1)")
	for _, e := range extra {
		s.send("(assert " + s.ts.Print(e) + ")")
	}
	tq := time.Now()
	// first attempt with a soft budget; on "unknown" the other z3 gets the full budget, then this one four times as much
	soft := s.timeoutMs
	if s.kind == "z3" && soft > 15000 {
		soft = 15000
		s.send(fmt.Sprintf("(set-option :timeout %d)", soft))
	}
	r := s.checkSat()
	if soft != s.timeoutMs && !s.dead {
		s.send(fmt.Sprintf("(set-option :timeout %d)", s.timeoutMs))
	}
	if os.Getenv("GOSX_QLOG") != "" && time.Since(tq) > time.Second {
		d := ""
		for _, e := range extra {
			p := s.ts.Print(e)
			if len(p) > 300 {
				p = p[:300]
			}
			d += " " + p
		}
		fmt.Fprintf(os.Stderr, "QLOG %.1fs %v%s\n", time.Since(tq).Seconds(), r, d)
	}
	if r == Unknown && s.kind == "z3" {
		if r2, m2 := s.fallback(wantModel); r2 != Unknown {
			if !s.dead {
				s.send("(pop 1)")
			}
			return r2, m2
		}
	}
	if r == Unknown && !s.dead && s.kind != "cvc5" {
		// a timeout under load is not a verdict: one more attempt with four times the budget
		saved := s.timeoutMs
		s.timeoutMs = 4 * saved
		s.send(fmt.Sprintf("(set-option :timeout %d)", s.timeoutMs))
		r = s.checkSat()
		s.timeoutMs = saved
		if !s.dead {
			s.send(fmt.Sprintf("(set-option :timeout %d)", saved))
		}
		s.Retries++
	}
	var model map[string]ModelVal
	if r == Sat && wantModel {
		model = s.getModel()
	}
	s.send("(pop 1)")
	return r, model
}

// CheckBrief: one attempt with a small budget, no fallback, no retry (used for optional work such as choosing a
// prettier counterexample model; "unknown" simply means the optional step is skipped).
func (s *Solver) CheckBrief(extra []*Term, wantModel bool, ms int) (SatResult, map[string]ModelVal) {
	if s.dead {
		return Unknown, nil
	}
	for _, e := range extra {
		s.declare(e)
	}
	s.send("(push 1)")
	for _, e := range extra {
		s.send("(assert " + s.ts.Print(e) + ")")
	}
	saved := s.timeoutMs
	s.timeoutMs = ms
	s.send(fmt.Sprintf("(set-option :timeout %d)", ms))
	r := s.checkSat()
	s.timeoutMs = saved
	if s.dead {
		return Unknown, nil
	}
	s.send(fmt.Sprintf("(set-option :timeout %d)", saved))
	var model map[string]ModelVal
	if r == Sat && wantModel {
		model = s.getModel()
	}
	if !s.dead {
		s.send("(pop 1)")
	}
	return r, model
}

type ModelVal struct {
	Sort string `json:"sort"`
	// exactly one of:
	U uint64 `json:"u,omitempty"`
	I int64  `json:"i,omitempty"`
	B bool   `json:"b,omitempty"`
	S []byte `json:"s,omitempty"`
}

func (s *Solver) getModel() map[string]ModelVal {
	model := map[string]ModelVal{}
	names := make([]string, 0, len(s.decl))
	for _, n := range s.ts.order {
		if s.decl[n] {
			names = append(names, n)
		}
	}
	// batch in chunks
	for i := 0; i < len(names); i += 50 {
		j := i + 50
		if j > len(names) {
			j = len(names)
		}
		var sb strings.Builder
		sb.WriteString("(get-value (")
		for _, n := range names[i:j] {
			sb.WriteString(smtSymName(n))
			sb.WriteByte(' ')
		}
		sb.WriteString("))")
		if s.dead {
			return model
		}
		s.send(sb.String())
		// model construction over sequences can run away in z3 4.8.12: same watchdog as for check-sat
		timer := time.AfterFunc(30*time.Second, func() {
			s.dead = true
			if s.cmd != nil && s.cmd.Process != nil {
				s.cmd.Process.Kill()
			}
		})
		r, err := s.readSexpr()
		timer.Stop()
		if err != nil || strings.HasPrefix(r, "(error") {
			s.Errors = append(s.Errors, "get-value: "+r)
			return model
		}
		sx, _ := parseSexpr(r)
		for _, pair := range sx.list {
			if len(pair.list) != 2 {
				continue
			}
			name := pair.list[0].atom
			name = strings.Trim(name, "|")
			sym := s.ts.syms[name]
			if sym == nil {
				continue
			}
			mv, ok := parseModelVal(sym.sort, pair.list[1])
			if ok {
				if s.ts.big[name] && s.declUF["len!"] {
					// abstract byte string: its length lives in the UF len!; materialise content of that length
					s.send("(get-value ((|len!| " + smtSymName(name) + ")))")
					if lr, err := s.readSexpr(); err == nil {
						if lx, _ := parseSexpr(lr); len(lx.list) == 1 && len(lx.list[0].list) == 2 {
							if lv, ok := parseModelVal(IntSort, lx.list[0].list[1]); ok && lv.I >= 0 && lv.I < 1<<26 {
								b := make([]byte, lv.I)
								copy(b, mv.S)
								for i := len(mv.S); i < len(b); i++ {
									b[i] = 'x'
								}
								mv.S = b
							}
						}
					}
				}
				model[name] = mv
			} else {
				s.Errors = append(s.Errors, "unparsed model value for "+name+": "+pair.list[1].String())
			}
		}
	}
	return model
}

// ---- tiny s-expr parser ----

type sexpr struct {
	atom string
	list []*sexpr
	isL  bool
}

func (s *sexpr) String() string {
	if !s.isL {
		return s.atom
	}
	var parts []string
	for _, x := range s.list {
		parts = append(parts, x.String())
	}
	return "(" + strings.Join(parts, " ") + ")"
}

func parseSexpr(src string) (*sexpr, int) {
	i := 0
	var parse func() *sexpr
	skip := func() {
		for i < len(src) && (src[i] == ' ' || src[i] == '\n' || src[i] == '\t' || src[i] == '\r') {
			i++
		}
	}
	parse = func() *sexpr {
		skip()
		if i >= len(src) {
			return &sexpr{}
		}
		if src[i] == '(' {
			i++
			n := &sexpr{isL: true}
			for {
				skip()
				if i >= len(src) {
					return n
				}
				if src[i] == ')' {
					i++
					return n
				}
				n.list = append(n.list, parse())
			}
		}
		st := i
		if src[i] == '|' {
			i++
			for i < len(src) && src[i] != '|' {
				i++
			}
			i++
			return &sexpr{atom: src[st:i]}
		}
		if src[i] == '"' {
			i++
			for i < len(src) {
				if src[i] == '"' {
					if i+1 < len(src) && src[i+1] == '"' {
						i += 2
						continue
					}
					break
				}
				i++
			}
			i++
			return &sexpr{atom: src[st:i]}
		}
		for i < len(src) && src[i] != ' ' && src[i] != ')' && src[i] != '(' && src[i] != '\n' {
			i++
		}
		return &sexpr{atom: src[st:i]}
	}
	r := parse()
	return r, i
}

func parseBVAtom(a string) (uint64, bool) {
	if strings.HasPrefix(a, "#x") {
		v, err := strconv.ParseUint(a[2:], 16, 64)
		return v, err == nil
	}
	if strings.HasPrefix(a, "#b") {
		v, err := strconv.ParseUint(a[2:], 2, 64)
		return v, err == nil
	}
	return 0, false
}

func parseModelVal(sort Sort, v *sexpr) (ModelVal, bool) {
	switch sort.K {
	case SBool:
		return ModelVal{Sort: "bool", B: v.atom == "true"}, v.atom == "true" || v.atom == "false"
	case SBV:
		if !v.isL {
			u, ok := parseBVAtom(v.atom)
			return ModelVal{Sort: "bv", U: u}, ok
		}
		// (_ bv123 64)
		if len(v.list) == 3 && v.list[0].atom == "_" && strings.HasPrefix(v.list[1].atom, "bv") {
			u, err := strconv.ParseUint(v.list[1].atom[2:], 10, 64)
			return ModelVal{Sort: "bv", U: u}, err == nil
		}
	case SInt:
		if !v.isL {
			i, err := strconv.ParseInt(v.atom, 10, 64)
			return ModelVal{Sort: "int", I: i}, err == nil
		}
		if len(v.list) == 2 && v.list[0].atom == "-" {
			i, err := strconv.ParseInt(v.list[1].atom, 10, 64)
			return ModelVal{Sort: "int", I: -i}, err == nil
		}
	case SStr:
		bs, ok := parseSeqVal(v)
		if bs == nil {
			bs = []byte{}
		}
		return ModelVal{Sort: "str", S: bs}, ok
	}
	return ModelVal{}, false
}

func parseSeqVal(v *sexpr) ([]byte, bool) {
	if !v.isL {
		return nil, false
	}
	if len(v.list) == 0 {
		return nil, false
	}
	switch v.list[0].atom {
	case "as": // (as seq.empty ...)
		return []byte{}, true
	case "seq.unit":
		if len(v.list) == 2 {
			u, ok := parseBVAtom(v.list[1].atom)
			return []byte{byte(u)}, ok
		}
	case "seq.++":
		var out []byte
		for _, x := range v.list[1:] {
			b, ok := parseSeqVal(x)
			if !ok {
				return nil, false
			}
			out = append(out, b...)
		}
		return out, true
	}
	return nil, false
}
