package main

// Check framework: obligations accounting, known findings, native replay, evidence, exit codes.

import (
	"encoding/json"
	"fmt"
	"os"
	"path/filepath"
	"runtime"
	"sort"
	"strconv"
	"strings"
	"time"
)

type slowJob struct {
	wall, solver float64
	paths        int
	tag          string
}

type oblStat struct{ Proved, Failed, Unknown int }

type Violation struct {
	Label   string
	Case    string
	Fine    string
	Job     Job
	Model   map[string]ModelVal
	Choices map[string]int
	Panic   bool
	Why     string
}

type KnownFinding struct {
	Property string `json:"property"`
	Kind     string `json:"kind"` // finding | fixed
	Label    string `json:"label"`
	Case     string `json:"case,omitempty"` // substring that must occur in the case key ("" = any)
	What     string `json:"what"`
	Commit   string `json:"commit,omitempty"`
}

type CheckRun struct {
	graph *fsmGraph
	ID, Tier     string
	Seed         int
	Level        string
	P            *Program
	Pool         *Pool
	owner        func(label string) bool
	obl          map[string]*oblStat
	fails        []Violation
	inconcl      []string
	samples      []interface{}
	extra        map[string]interface{}
	assume       []string
	trusted      []string
	start        time.Time
	known        []KnownFinding
	states       int
	trans        int
	validated    int
	exhaustive   bool
	explanation  string
	bounds       map[string]interface{}
	replayBudget int
	vseq         int
	slow         []slowJob
	witnessed    int
	groupKey     func(v Violation) string
}

func loadKnown() []KnownFinding {
	b, err := os.ReadFile(filepath.Join(verifDir, "known_findings.json"))
	if err != nil {
		return nil
	}
	var k struct {
		Findings []KnownFinding `json:"findings"`
	}
	if json.Unmarshal(b, &k) != nil {
		return nil
	}
	return k.Findings
}

func (cr *CheckRun) note(s string) {
	for _, x := range cr.inconcl {
		if x == s {
			return
		}
	}
	cr.inconcl = append(cr.inconcl, s)
}

// absorb accounts the results of a batch of jobs.
func (cr *CheckRun) absorb(jobs []Job, res []*JobResult) {
	for i, jr := range res {
		j := jobs[i]
		cr.slow = append(cr.slow, slowJob{jr.WallSec, jr.SolverSec, len(jr.Paths), j.Fn + " " + j.Tag})
		if jr.Truncated {
			cr.note("path budget exhausted in " + j.Fn + " " + j.Tag)
		}
		for _, e := range jr.SolverErr {
			cr.note("solver error: " + e)
		}
		for _, p := range jr.Paths {
			switch p.Status {
			case "unsupported", "inconclusive":
				cr.note(p.Status + ": " + p.Why + " [" + j.Fn + " " + j.Tag + "]")
			case "panic":
				if cr.owner("nopanic") {
					cr.fails = append(cr.fails, Violation{Label: "nopanic", Case: caseOf(j), Fine: j.Tag, Job: j, Model: p.PanicModel, Choices: p.Choices, Panic: true, Why: p.Why})
					cr.stat("nopanic").Failed++
				} else {
					cr.note("panic on a feasible path (owned by C18): " + p.Why + " [" + j.Fn + " " + j.Tag + "]")
				}
			}
			if p.Inconclusive && p.Status == "ok" {
				cr.note("inconclusive path in " + j.Fn + " " + j.Tag + ": " + strings.Join(p.Notes, "; "))
			}
			for _, a := range p.Asserts {
				if a.Label == "witness" || strings.HasPrefix(a.Label, "witness:") {
					// reachability twin: must come back violated, otherwise the harness is vacuous
					if a.Verdict == "failed" {
						cr.witnessed++
					} else {
						cr.note("vacuity: reachability witness not violated (" + a.Verdict + ") in " + j.Fn + " " + j.Tag)
					}
					continue
				}
				if !cr.owner(a.Label) {
					continue
				}
				st := cr.stat(a.Label)
				switch a.Verdict {
				case "proved":
					st.Proved++
				case "failed":
					st.Failed++
					cr.fails = append(cr.fails, Violation{Label: a.Label, Case: caseOf(j), Fine: j.Tag, Job: j, Model: a.Model, Choices: a.Choices})
				default:
					st.Unknown++
					cr.note("solver unknown on obligation " + a.Label + " [" + j.Tag + "]")
				}
			}
		}
	}
}

// validateNatively runs a harness job natively with the given model (may be empty: all symbolic inputs default) and
// checks that the real build agrees with the executor: the reachability witness is hit and no other assertion fails.
func (cr *CheckRun) validateNatively(j Job, model map[string]ModelVal, choices map[string]int) {
	cr.vseq++
	rr := Replay(cr.P, ReplaySpec{Property: cr.ID, Pkg: j.Pkg, Fn: j.Fn, Label: "witness", Params: j.Params, Model: model, Choices: choices}, 900+cr.vseq)
	bad := ""
	for _, line := range strings.Split(rr.Output, "\n") {
		if strings.HasPrefix(line, "VF-VIOLATED ") && line != "VF-VIOLATED witness" {
			bad = line
		}
		if strings.Contains(line, "VF-PANIC") || strings.HasPrefix(line, "panic:") {
			bad = line
		}
	}
	if rr.Reproduced && bad == "" {
		cr.validated++
		return
	}
	tail := rr.Output
	if len(tail) > 500 {
		tail = tail[len(tail)-500:]
	}
	cr.note("native validation run of " + j.Fn + " " + j.Tag + " disagrees with the executor: " + bad + " " + tail)
}

func caseOf(j Job) string {
	if j.Case != "" {
		return j.Case
	}
	return j.Tag
}

func (cr *CheckRun) stat(l string) *oblStat {
	s := cr.obl[l]
	if s == nil {
		s = &oblStat{}
		cr.obl[l] = s
	}
	return s
}

func (cr *CheckRun) matchKnown(v Violation) *KnownFinding {
	for i := range cr.known {
		k := &cr.known[i]
		if k.Property != cr.ID || k.Kind != "finding" {
			continue
		}
		if k.Label != v.Label {
			continue
		}
		if k.Case != "" && !strings.Contains(v.Case, k.Case) {
			continue
		}
		return k
	}
	return nil
}

// finish replays failures, prints verdict lines, writes evidence, returns the exit code.
func (cr *CheckRun) finish() int {
	// group failures by (label, case)
	type grp struct {
		key string
		vs  []Violation
	}
	groups := map[string]*grp{}
	var order []string
	for _, v := range cr.fails {
		k := v.Label + " @ " + v.Case
		if cr.groupKey != nil {
			k = cr.groupKey(v)
		}
		g := groups[k]
		if g == nil {
			g = &grp{key: k}
			groups[k] = g
			order = append(order, k)
		}
		g.vs = append(g.vs, v)
	}
	sort.Strings(order)
	violations := 0
	knownMatched := map[string]int{}
	knownReplayed := map[string]int{}
	var knownLines []string
	seq := 0
	replayed := 0
	for _, k := range order {
		g := groups[k]
		v := g.vs[0]
		kf := cr.matchKnown(v)
		if os.Getenv("GOSX_LIST_FAILS") != "" {
			fmt.Printf("FAILGROUP\t%s\t%s\t%d\n", v.Label, v.Case, len(g.vs))
		}
		// replay (bounded number per run); known findings are re-confirmed too, but only once per label
		doReplay := true
		if kf != nil && knownReplayed[kf.Label] > 0 {
			doReplay = false
		}
		if replayed >= cr.replayBudget {
			doReplay = false
		}
		reproduced := false
		dir := ""
		if doReplay {
			replayed++
			var rr ReplayResult
			// the abstraction (opaque blobs, uninterpreted functions) can make one instance unreproducible while another
			// instance of the same failing obligation is concrete enough: try a few distinct instances
			tried := map[string]bool{}
			for _, cand := range g.vs {
				ck := fmt.Sprint(cand.Job.Tag, cand.Choices)
				if tried[ck] {
					continue
				}
				if len(tried) >= 4 {
					break
				}
				tried[ck] = true
				seq++
				rr = Replay(cr.P, ReplaySpec{Property: cr.ID, Pkg: cand.Job.Pkg, Fn: cand.Job.Fn, Label: cand.Label, Panic: cand.Panic,
					Params: cand.Job.Params, Model: cand.Model, Choices: cand.Choices}, seq)
				cr.validated++
				if rr.Reproduced {
					v = cand
					break
				}
			}
			reproduced = rr.Reproduced
			dir = rr.Dir
			if !reproduced {
				tail := rr.Output
				if len(tail) > 600 {
					tail = tail[len(tail)-600:]
				}
				cr.note("counterexample for " + k + " did not reproduce natively (encoding/stub mismatch): " + tail)
				continue
			}
		}
		if kf != nil {
			if doReplay {
				knownReplayed[kf.Label]++
			}
			knownMatched[kf.Label+"|"+kf.Case]++
			if knownMatched[kf.Label+"|"+kf.Case] == 1 {
				knownLines = append(knownLines, fmt.Sprintf("KNOWN-FINDING: property=%s %s", cr.ID, kf.What))
			}
			continue
		}
		if !doReplay {
			// over the replay budget: report as violation only if an identical-label group was already confirmed
			cr.note("violation candidate not replayed (budget): " + k)
			continue
		}
		violations++
		fmt.Printf("VIOLATION property=%s replay=%s\n", cr.ID, dir)
		fmt.Printf("  obligation %s\n  case %s (%d failing instances, first: %s)\n", v.Label, v.Case, len(g.vs), v.Fine)
		if v.Why != "" {
			fmt.Printf("  %s\n", v.Why)
		}
	}
	if os.Getenv("GOSX_SLOW") != "" {
		sort.Slice(cr.slow, func(i, j int) bool { return cr.slow[i].wall > cr.slow[j].wall })
		for i, sj := range cr.slow {
			if i >= 12 {
				break
			}
			fmt.Printf("SLOW: wall %.1fs solver %.1fs paths %d %s\n", sj.wall, sj.solver, sj.paths, sj.tag)
		}
	}
	for _, l := range knownLines {
		fmt.Println(l)
	}
	for i, s := range cr.inconcl {
		if i >= 15 {
			fmt.Printf("INCONCLUSIVE: ... and %d more\n", len(cr.inconcl)-i)
			break
		}
		if len(s) > 700 {
			s = s[:700] + "..."
		}
		fmt.Println("INCONCLUSIVE:", s)
	}
	cr.writeEvidence(violations, knownMatched)
	nObl, nDis := 0, 0
	for _, s := range cr.obl {
		nObl += s.Proved + s.Failed + s.Unknown
		nDis += s.Proved
	}
	fmt.Printf("%s %s: %d obligation instances, %d discharged, %d failed groups (%d known), %d violations, %d inconclusive notes, %d queries, solver %.1fs, wall %.1fs\n",
		cr.ID, cr.Tier, nObl, nDis, len(order), len(knownLines), violations, len(cr.inconcl), cr.Pool.Queries, cr.Pool.SolverS, time.Since(cr.start).Seconds())
	if violations > 0 {
		return 1
	}
	if len(cr.inconcl) > 0 {
		return 2
	}
	return 0
}

func (cr *CheckRun) writeEvidence(violations int, knownMatched map[string]int) {
	nObl, nDis := 0, 0
	labels := map[string]map[string]int{}
	for l, s := range cr.obl {
		nObl += s.Proved + s.Failed + s.Unknown
		nDis += s.Proved
		labels[l] = map[string]int{"proved": s.Proved, "failed": s.Failed, "unknown": s.Unknown}
	}
	var funcs []string
	for f := range cr.Pool.Funcs {
		funcs = append(funcs, f)
	}
	sort.Strings(funcs)
	cov := map[string]interface{}{
		"obligations":                   nObl,
		"discharged":                    nDis,
		"obligation_labels":             labels,
		"functions_encoded":             funcs,
		"functions_encoded_count":       len(funcs),
		"jobs":                          cr.Pool.Jobs,
		"paths":                         cr.Pool.Paths,
		"ssa_instructions_executed":     cr.Pool.Steps,
		"queries":                       cr.Pool.Queries,
		"solver_time_s":                 cr.Pool.SolverS,
		"solver":                        cr.Pool.solver + " 4.8.12 (one process per worker, SMT-LIB2 over a pipe; 15 s soft budget per query, then z3 5.1.0 on the same assertion stack, then the first solver again with four times the budget)",
		"bounds":                        cr.bounds,
		"samples":                       cr.samples,
		"traces_validated_against_impl": cr.validated,
		"known_findings_matched":        knownMatched,
		"vacuity_twins_violated":        cr.witnessed,
		"inconclusive":                  cr.inconcl,
		"exhaustive":                    cr.exhaustive && len(cr.inconcl) == 0,
		"explanation":                   cr.explanation,
		"trusted_base":                  cr.trusted,
		"evaluations":                   cr.Pool.Paths,
		"distinct_nontrivial":           cr.Pool.Paths,
		"rule":                          "one evaluation = one feasible symbolic path (distinct decision vector) of a harness job; every path is decided by solver queries over all values of its symbolic inputs",
	}
	if cr.states > 0 {
		cov["states"] = cr.states
		cov["transitions"] = cr.trans
	}
	for k, v := range cr.extra {
		cov[k] = v
	}
	if len(cr.samples) == 0 {
		cov["samples"] = []interface{}{"(no sample recorded)"}
	}
	ev := map[string]interface{}{
		"property_id": cr.ID,
		"tier":        cr.Tier,
		"seed":        cr.Seed,
		"level":       cr.Level,
		"coverage":    cov,
		"assumptions": cr.assume,
		"wall_s":      time.Since(cr.start).Seconds(),
		"violations":  violations,
	}
	evDir := filepath.Join(verifDir, "evidence")
	if d := os.Getenv("GOSX_EVIDENCE_DIR"); d != "" {
		evDir = d // experiments against seeded changes must not overwrite the evidence of the real tree
	}
	os.MkdirAll(evDir, 0o755)
	b, _ := json.MarshalIndent(ev, "", " ")
	os.WriteFile(filepath.Join(evDir, cr.ID+".json"), b, 0o644)
}

// ---- entry ----

type checkDef struct {
	level string
	pkgs  []string // repo-relative package dirs to load
	run   func(cr *CheckRun)
}

var checkDefs = map[string]*checkDef{}

func cmdCheck(args []string) int {
	if len(args) < 1 {
		fmt.Fprintln(os.Stderr, "usage: gosx check <ID> [quick|thorough]")
		return 2
	}
	id := args[0]
	tier := "quick"
	if len(args) > 1 {
		tier = args[1]
	}
	if t := os.Getenv("VERIF_TIER"); t != "" && len(args) < 2 {
		tier = t
	}
	seed, _ := strconv.Atoi(os.Getenv("VERIF_SEED"))
	def := checkDefs[id]
	if def == nil {
		fmt.Fprintln(os.Stderr, "no check for", id)
		return 2
	}
	start := time.Now()
	ov, _, err := buildOverlay()
	if err != nil {
		fmt.Fprintln(os.Stderr, err)
		return 2
	}
	var pats []string
	for _, p := range def.pkgs {
		pats = append(pats, "./"+p)
	}
	P, err := LoadProgram(repoDir, ov, pats)
	if err != nil {
		fmt.Fprintln(os.Stderr, "load:", err)
		fmt.Printf("INCONCLUSIVE: /repo does not load with the harness overlay: %v\n", err)
		return 2
	}
	workers := runtime.NumCPU()
	if w, err := strconv.Atoi(os.Getenv("GOSX_WORKERS")); err == nil && w > 0 {
		workers = w
	}
	solver := envOr("GOSX_SOLVER", "z3")
	cr := &CheckRun{ID: id, Tier: tier, Seed: seed, Level: def.level, P: P, Pool: NewPool(P, workers, solver),
		obl: map[string]*oblStat{}, extra: map[string]interface{}{}, start: start, known: loadKnown(),
		owner: func(string) bool { return true }, bounds: map[string]interface{}{}, replayBudget: 12}
	cr.extra["load_and_ssa_build_s"] = time.Since(start).Seconds()
	def.run(cr)
	return cr.finish()
}
