package main

// Models of standard-library functions. Pure helpers are evaluated natively on concrete arguments;
// symbolic arguments get the small models written here. Anything else is "unsupported" => inconclusive.

import (
	"encoding/base64"
	"encoding/hex"
	"fmt"
	"go/types"
	"sort"
	"strconv"
	"strings"

	"golang.org/x/tools/go/ssa"
)

func registerIntrinsics(P *Program) {
	registerVF(P)
	registerStd(P)
	registerTime(P)
	registerJSON(P)
	registerCrypto(P)
	registerIO(P)
	registerKyber(P)
	registerKyberDKG(P)
	registerAir(P)
	registerAtomic(P)
	registerSyncMap(P)
	registerNative(P)
}

func cstr(v Value) (string, bool) {
	t, ok := v.(*Term)
	if ok && t.IsConst() && t.sort.K == SStr {
		return t.s, true
	}
	return "", false
}

func mustStr(v Value, what string) string {
	s, ok := cstr(v)
	if !ok {
		panic(unsupported(what + ": symbolic string argument"))
	}
	return s
}

func cint(v Value) (int64, bool) {
	t, ok := v.(*Term)
	if ok && t.IsConst() && t.sort.K == SBV {
		return t.SVal(), true
	}
	return 0, false
}

func (in *Interp) mkBytes(b []byte) SliceV {
	if b == nil {
		return SliceV{}
	}
	a := make([]Value, len(b))
	for i, c := range b {
		a[i] = in.ts.BV(8, uint64(c))
	}
	return SliceV{A: a}
}

// concBytes returns the concrete content of a byte slice, if fully concrete.
func concBytes(s SliceV) ([]byte, bool) {
	if s.Blob != nil {
		if s.Blob.Str != nil && s.Blob.Str.IsConst() {
			return []byte(s.Blob.Str.s), true
		}
		return nil, false
	}
	out := make([]byte, len(s.A))
	for i, e := range s.A {
		t := e.(*Term)
		if !t.IsConst() {
			return nil, false
		}
		out[i] = byte(t.u)
	}
	return out, true
}

func (in *Interp) mkStrSlice(ss []string) SliceV {
	a := make([]Value, len(ss))
	for i, s := range ss {
		a[i] = in.ts.Str(s)
	}
	return SliceV{A: a}
}

// newError builds a real *errors.errorString value.
func (in *Interp) newError(msg *Term) Value {
	t := in.P.namedType("errors", "errorString")
	if t == nil {
		panic(unsupported("errors.errorString type not loaded"))
	}
	var cell Value = Struct{msg}
	return Iface{T: types.NewPointer(t), V: Ptr(&cell)}
}

func (in *Interp) newWrapError(msg *Term, inner Value) Value {
	t := in.P.namedType("fmt", "wrapError")
	if t == nil {
		return in.newError(msg)
	}
	var cell Value = Struct{msg, inner}
	return Iface{T: types.NewPointer(t), V: Ptr(&cell)}
}

// errorString calls Error() on an error interface value.
func (in *Interp) errorMsg(e Iface) *Term {
	if e.T == nil {
		return in.ts.Str("<nil>")
	}
	if p, ok := e.V.(Ptr); ok && p != nil {
		if n, ok := e.T.(*types.Pointer); ok {
			if nn, ok := n.Elem().(*types.Named); ok && nn.Obj().Pkg() != nil {
				full := nn.Obj().Pkg().Path() + "." + nn.Obj().Name()
				if full == "errors.errorString" || full == "fmt.wrapError" {
					return (*p).(Struct)[0].(*Term)
				}
			}
		}
	}
	m := hasMethod(in.P, e.T, "Error")
	if m == nil {
		return in.ts.Str("<error>")
	}
	r := in.callFunc(in.cur, m, []Value{e.V}, nil, nil)
	if t, ok := r.(*Term); ok {
		return t
	}
	return in.ts.Str("<error>")
}

func (in *Interp) unwrapErr(e Iface) Iface {
	if e.T == nil {
		return Iface{}
	}
	m := hasMethod(in.P, e.T, "Unwrap")
	if m == nil {
		return Iface{}
	}
	if m.Signature.Results().Len() != 1 {
		return Iface{}
	}
	if p, ok := e.V.(Ptr); ok && p != nil {
		if n, ok := e.T.(*types.Pointer); ok {
			if nn, ok := n.Elem().(*types.Named); ok && nn.Obj().Pkg() != nil && nn.Obj().Pkg().Path() == "fmt" && nn.Obj().Name() == "wrapError" {
				r, _ := (*p).(Struct)[1].(Iface)
				return r
			}
		}
	}
	r := in.callFunc(in.cur, m, []Value{e.V}, nil, nil)
	if i, ok := r.(Iface); ok {
		return i
	}
	return Iface{}
}

// ---- fmt ----

func (in *Interp) fmtArg(verb byte, plus bool, a Value) *Term {
	ts := in.ts
	v, ok := a.(Iface)
	if !ok {
		return ts.Str("<?>")
	}
	if v.T == nil {
		if verb == 'v' || verb == 's' {
			return ts.Str("<nil>")
		}
		return ts.Str("%!" + string(verb) + "(<nil>)")
	}
	// error / Stringer
	if verb == 's' || verb == 'v' || verb == 'q' || verb == 'w' {
		if m := hasMethod(in.P, v.T, "Error"); m != nil && m.Signature.Params().Len() == 0 {
			return in.errorMsg(v)
		}
		if m := hasMethod(in.P, v.T, "String"); m != nil && m.Signature.Params().Len() == 0 && m.Signature.Results().Len() == 1 {
			if p, isPtr := v.V.(Ptr); !(isPtr && p == nil) {
				if in.P.interpretable(m) || in.P.intrinsic(m) != nil {
					if r, ok := in.callFunc(in.cur, m, []Value{v.V}, nil, nil).(*Term); ok {
						return r
					}
				}
			}
		}
	}
	switch x := v.V.(type) {
	case *Term:
		switch x.sort.K {
		case SStr:
			if verb == 'q' {
				if x.IsConst() {
					return ts.Str(strconv.Quote(x.s))
				}
				return ts.SConcat(ts.Str("\""), x, ts.Str("\""))
			}
			if verb == 'x' {
				if x.IsConst() {
					return ts.Str(hex.EncodeToString([]byte(x.s)))
				}
				return ts.App("hex", StrSort, x)
			}
			return x
		case SBool:
			return ts.Ite(x, ts.Str("true"), ts.Str("false"))
		case SBV:
			_, signed, _ := isIntType(v.T)
			if c := in.pinnedConst(x); c != nil {
				x = c
			}
			if x.IsConst() {
				var f string
				switch verb {
				case 'x':
					f = "%x"
				case 'c':
					f = "%c"
				default:
					f = "%d"
				}
				if signed {
					return ts.Str(fmt.Sprintf(f, x.SVal()))
				}
				return ts.Str(fmt.Sprintf(f, x.u))
			}
			name := "itoa"
			if !signed {
				name = "utoa"
			}
			return ts.App(name, StrSort, ts.Sext(64, x))
		}
	case float64:
		return ts.Str(fmt.Sprintf("%v", x))
	case SliceV:
		if sl, ok := v.T.Underlying().(*types.Slice); ok {
			if b, ok := sl.Elem().Underlying().(*types.Basic); ok && b.Kind() == types.Uint8 {
				s := in.sliceStr(x)
				switch verb {
				case 's':
					return s
				case 'x':
					if s.IsConst() {
						return ts.Str(hex.EncodeToString([]byte(s.s)))
					}
					return ts.App("hex", StrSort, s)
				}
				if s.IsConst() {
					return ts.Str(fmt.Sprintf("%"+string(verb), []byte(s.s)))
				}
				return ts.App("fmtbytes", StrSort, s)
			}
		}
	case TimeV:
		return ts.App("fmttime", StrSort, x.T)
	}
	// %v of slices / arrays / structs of printable things, as fmt prints them
	if verb == 'v' || verb == 'd' || verb == 's' {
		switch u := v.T.Underlying().(type) {
		case *types.Slice:
			if x, ok := v.V.(SliceV); ok && x.Blob == nil {
				parts := []*Term{ts.Str("[")}
				for i, e := range x.A {
					if i > 0 {
						parts = append(parts, ts.Str(" "))
					}
					parts = append(parts, in.fmtArg(verb, plus, Iface{T: u.Elem(), V: e}))
				}
				return ts.SConcat(append(parts, ts.Str("]"))...)
			}
		case *types.Array:
			if x, ok := v.V.(Array); ok {
				parts := []*Term{ts.Str("[")}
				for i, e := range x {
					if i > 0 {
						parts = append(parts, ts.Str(" "))
					}
					parts = append(parts, in.fmtArg(verb, plus, Iface{T: u.Elem(), V: e}))
				}
				return ts.SConcat(append(parts, ts.Str("]"))...)
			}
		case *types.Struct:
			if x, ok := v.V.(Struct); ok && len(x) == u.NumFields() {
				parts := []*Term{ts.Str("{")}
				for i, e := range x {
					if i > 0 {
						parts = append(parts, ts.Str(" "))
					}
					if plus {
						parts = append(parts, ts.Str(u.Field(i).Name()+":"))
					}
					fv := e
					if _, isIface := u.Field(i).Type().Underlying().(*types.Interface); !isIface {
						fv = Iface{T: u.Field(i).Type(), V: e}
					}
					parts = append(parts, in.fmtArg(verb, plus, fv))
				}
				return ts.SConcat(append(parts, ts.Str("}"))...)
			}
		}
	}
	// anything else (pointers, maps, channels, funcs): some string we know nothing about - never a made-up constant
	in.opq++
	return ts.FreshSym(fmt.Sprintf("fmt!%d", in.opq), StrSort)
}

func (in *Interp) sprintf(format *Term, args []Value) *Term {
	ts := in.ts
	if !format.IsConst() {
		return ts.App("sprintf", StrSort, format)
	}
	f := format.s
	var parts []*Term
	ai := 0
	var lit strings.Builder
	flush := func() {
		if lit.Len() > 0 {
			parts = append(parts, ts.Str(lit.String()))
			lit.Reset()
		}
	}
	for i := 0; i < len(f); i++ {
		c := f[i]
		if c != '%' {
			lit.WriteByte(c)
			continue
		}
		i++
		if i >= len(f) {
			lit.WriteString("%!(NOVERB)")
			break
		}
		plus := false
		flagStart := i
		for i < len(f) && strings.IndexByte("+-# 0123456789.*", f[i]) >= 0 {
			if f[i] == '+' {
				plus = true
			}
			i++
		}
		flags := f[flagStart:i]
		if i >= len(f) {
			break
		}
		verb := f[i]
		if verb == '%' {
			lit.WriteByte('%')
			continue
		}
		if ai >= len(args) {
			lit.WriteString("%!" + string(verb) + "(MISSING)")
			continue
		}
		flush()
		if flags != "" && flags != "+" && !strings.Contains(flags, "*") {
			// width / precision / padding flags: exact for concrete basic operands, an uninterpreted string otherwise
			// (never silently the unpadded text)
			parts = append(parts, in.fmtFlagged("%"+flags+string(verb), args[ai]))
			ai++
			continue
		}
		parts = append(parts, in.fmtArg(verb, plus, args[ai]))
		ai++
	}
	flush()
	return ts.SConcat(parts...)
}

func (in *Interp) fmtFlagged(spec string, a Value) *Term {
	ts := in.ts
	if v, ok := a.(Iface); ok && v.T != nil {
		switch x := v.V.(type) {
		case *Term:
			if c := in.pinnedConst(x); c != nil {
				x = c
			}
			if x.IsConst() {
				switch x.sort.K {
				case SStr:
					return ts.Str(fmt.Sprintf(spec, x.s))
				case SBool:
					return ts.Str(fmt.Sprintf(spec, x.BoolVal()))
				case SBV:
					if _, signed, _ := isIntType(v.T); signed {
						return ts.Str(fmt.Sprintf(spec, x.SVal()))
					}
					return ts.Str(fmt.Sprintf(spec, x.u))
				}
			}
			in.injUFs["fmt:"+spec] = false
			return ts.App("fmt:"+spec, StrSort, x)
		case float64:
			return ts.Str(fmt.Sprintf(spec, x))
		case SliceV:
			if b, ok := concBytes(x); ok {
				return ts.Str(fmt.Sprintf(spec, b))
			}
		}
	}
	in.opq++
	return ts.FreshSym(fmt.Sprintf("fmt!%d", in.opq), StrSort)
}

func (in *Interp) sprint(args []Value, ln bool) *Term {
	var parts []*Term
	for i, a := range args {
		if i > 0 && ln {
			parts = append(parts, in.ts.Str(" "))
		}
		parts = append(parts, in.fmtArg('v', false, a))
	}
	if ln {
		parts = append(parts, in.ts.Str("\n"))
	}
	return in.ts.SConcat(parts...)
}

func variadic(v Value) []Value {
	if s, ok := v.(SliceV); ok {
		return s.A
	}
	return nil
}

func registerStd(P *Program) {
	nop := func(in *Interp, caller *frame, fn *ssa.Function, args []Value) Value { return nil }
	r := P.reg

	// sync: no-ops when single-threaded; real mutual exclusion between logical threads under vf.Par
	for _, n := range []string{"(*sync.Mutex).Lock", "(*sync.RWMutex).Lock", "(*sync.RWMutex).RLock"} {
		r(n, func(in *Interp, caller *frame, fn *ssa.Function, args []Value) Value {
			in.mutexLock(args[0])
			return nil
		})
	}
	for _, n := range []string{"(*sync.Mutex).Unlock", "(*sync.RWMutex).Unlock", "(*sync.RWMutex).RUnlock"} {
		r(n, func(in *Interp, caller *frame, fn *ssa.Function, args []Value) Value {
			in.mutexUnlock(args[0])
			return nil
		})
	}
	r("(*sync.WaitGroup).Add", func(in *Interp, caller *frame, fn *ssa.Function, args []Value) Value {
		d, ok := args[1].(*Term)
		if !ok || !d.IsConst() {
			panic(unsupported("WaitGroup.Add with a symbolic delta"))
		}
		in.wgAdd(args[0].(Ptr), int64(d.u))
		return nil
	})
	r("(*sync.WaitGroup).Done", func(in *Interp, caller *frame, fn *ssa.Function, args []Value) Value {
		in.wgAdd(args[0].(Ptr), -1)
		return nil
	})
	r("(*sync.WaitGroup).Wait", func(in *Interp, caller *frame, fn *ssa.Function, args []Value) Value {
		in.wgWait(args[0].(Ptr))
		return nil
	})
	r("(*sync.Mutex).TryLock", func(in *Interp, caller *frame, fn *ssa.Function, args []Value) Value { return in.ts.True() })
	r("(*sync.Once).Do", func(in *Interp, caller *frame, fn *ssa.Function, args []Value) Value {
		p := args[0].(Ptr)
		key := fmt.Sprintf("once:%p", p)
		if in.hooks[key] == nil {
			in.hooks[key] = true
			in.callValue(caller, args[1], nil, nil)
		}
		return nil
	})

	// fmt / log
	r("fmt.Errorf", func(in *Interp, caller *frame, fn *ssa.Function, args []Value) Value {
		va := variadic(args[1])
		msg := in.sprintf(args[0].(*Term), va)
		if f, ok := cstr(args[0]); ok && strings.Contains(f, "%w") {
			// find the %w operand
			for _, a := range va {
				if e, ok := a.(Iface); ok && e.T != nil {
					if m := hasMethod(in.P, e.T, "Error"); m != nil {
						return in.newWrapError(msg, e)
					}
				}
			}
		}
		return in.newError(msg)
	})
	r("fmt.Sprintf", func(in *Interp, caller *frame, fn *ssa.Function, args []Value) Value {
		return in.sprintf(args[0].(*Term), variadic(args[1]))
	})
	r("fmt.Sprint", func(in *Interp, caller *frame, fn *ssa.Function, args []Value) Value {
		return in.sprint(variadic(args[0]), false)
	})
	r("fmt.Sprintln", func(in *Interp, caller *frame, fn *ssa.Function, args []Value) Value {
		return in.sprint(variadic(args[0]), true)
	})
	for _, n := range []string{"fmt.Println", "fmt.Printf", "fmt.Print", "log.Println", "log.Printf", "log.Print",
		"(*log.Logger).Println", "(*log.Logger).Printf", "(*log.Logger).Print"} {
		r(n, func(in *Interp, caller *frame, fn *ssa.Function, args []Value) Value {
			if fn.Signature.Results().Len() == 2 {
				return Tuple{in.ts.BV(64, 0), Iface{}}
			}
			return nil
		})
	}
	for _, n := range []string{"log.Fatal", "log.Fatalf", "log.Fatalln", "os.Exit", "log.Panicf", "log.Panic"} {
		name := n
		r(name, func(in *Interp, caller *frame, fn *ssa.Function, args []Value) Value {
			panic(&goPanic{msg: name + " called (process exit)", stack: in.stack()})
		})
	}

	// errors
	r("(*fmt.wrapError).Error", func(in *Interp, caller *frame, fn *ssa.Function, args []Value) Value {
		return (*args[0].(Ptr)).(Struct)[0]
	})
	r("(*fmt.wrapError).Unwrap", func(in *Interp, caller *frame, fn *ssa.Function, args []Value) Value {
		return (*args[0].(Ptr)).(Struct)[1]
	})
	r("errors.Is", func(in *Interp, caller *frame, fn *ssa.Function, args []Value) Value {
		err, _ := args[0].(Iface)
		target, _ := args[1].(Iface)
		for depth := 0; depth < 32; depth++ {
			if err.T == nil {
				return in.ts.Bool(target.T == nil)
			}
			if target.T != nil && types.Identical(err.T, target.T) {
				if eq := in.eqVal(err.T, err.V, target.V); eq.IsConst() && eq.BoolVal() {
					return in.ts.True()
				}
			}
			err = in.unwrapErr(err)
			if err.T == nil {
				return in.ts.False()
			}
		}
		return in.ts.False()
	})
	r("errors.Unwrap", func(in *Interp, caller *frame, fn *ssa.Function, args []Value) Value {
		return in.unwrapErr(args[0].(Iface))
	})
	r("errors.As", func(in *Interp, caller *frame, fn *ssa.Function, args []Value) Value {
		err, _ := args[0].(Iface)
		tgt := args[1].(Iface)
		pt, ok := tgt.T.(*types.Pointer)
		if !ok {
			panic(unsupported("errors.As target"))
		}
		for depth := 0; depth < 32 && err.T != nil; depth++ {
			match := false
			if it, isI := pt.Elem().Underlying().(*types.Interface); isI {
				match = types.Implements(err.T, it)
			} else {
				match = types.Identical(err.T, pt.Elem())
			}
			if match {
				if _, isI := pt.Elem().Underlying().(*types.Interface); isI {
					storeVal(tgt.V.(Ptr), err)
				} else {
					storeVal(tgt.V.(Ptr), err.V)
				}
				return in.ts.True()
			}
			err = in.unwrapErr(err)
		}
		return in.ts.False()
	})

	// strings (native on concrete arguments, small symbolic models otherwise)
	r("strings.TrimSpace", func(in *Interp, caller *frame, fn *ssa.Function, args []Value) Value {
		if s, ok := cstr(args[0]); ok {
			return in.ts.Str(strings.TrimSpace(s))
		}
		// symbolic: harnesses assume no surrounding white space (stated); identity
		in.res.note("strings.TrimSpace on symbolic string modelled as identity (assumes no surrounding white space)")
		return args[0]
	})
	r("strings.HasPrefix", func(in *Interp, caller *frame, fn *ssa.Function, args []Value) Value {
		return in.ts.SPrefix(args[1].(*Term), args[0].(*Term))
	})
	r("strings.HasSuffix", func(in *Interp, caller *frame, fn *ssa.Function, args []Value) Value {
		return in.ts.SSuffix(args[1].(*Term), args[0].(*Term))
	})
	r("strings.Contains", func(in *Interp, caller *frame, fn *ssa.Function, args []Value) Value {
		return in.ts.SContains(args[0].(*Term), args[1].(*Term))
	})
	r("strings.Split", func(in *Interp, caller *frame, fn *ssa.Function, args []Value) Value {
		return in.mkStrSlice(strings.Split(mustStr(args[0], "strings.Split"), mustStr(args[1], "strings.Split")))
	})
	r("strings.Join", func(in *Interp, caller *frame, fn *ssa.Function, args []Value) Value {
		sep := args[1].(*Term)
		var parts []*Term
		for i, e := range args[0].(SliceV).A {
			if i > 0 {
				parts = append(parts, sep)
			}
			parts = append(parts, e.(*Term))
		}
		return in.ts.SConcat(parts...)
	})
	r("strings.Replace", func(in *Interp, caller *frame, fn *ssa.Function, args []Value) Value {
		n, _ := cint(args[3])
		return in.ts.Str(strings.Replace(mustStr(args[0], "strings.Replace"), mustStr(args[1], "strings.Replace"), mustStr(args[2], "strings.Replace"), int(n)))
	})
	r("strings.ReplaceAll", func(in *Interp, caller *frame, fn *ssa.Function, args []Value) Value {
		return in.ts.Str(strings.ReplaceAll(mustStr(args[0], "strings.ReplaceAll"), mustStr(args[1], "strings.ReplaceAll"), mustStr(args[2], "strings.ReplaceAll")))
	})
	r("strings.ToLower", func(in *Interp, caller *frame, fn *ssa.Function, args []Value) Value {
		return in.ts.Str(strings.ToLower(mustStr(args[0], "strings.ToLower")))
	})
	r("strings.ToUpper", func(in *Interp, caller *frame, fn *ssa.Function, args []Value) Value {
		return in.ts.Str(strings.ToUpper(mustStr(args[0], "strings.ToUpper")))
	})
	r("strings.Trim", func(in *Interp, caller *frame, fn *ssa.Function, args []Value) Value {
		return in.ts.Str(strings.Trim(mustStr(args[0], "strings.Trim"), mustStr(args[1], "strings.Trim")))
	})
	r("bytes.HasPrefix", func(in *Interp, caller *frame, fn *ssa.Function, args []Value) Value {
		return in.ts.SPrefix(in.sliceStr(args[1].(SliceV)), in.sliceStr(args[0].(SliceV)))
	})
	r("bytes.HasSuffix", func(in *Interp, caller *frame, fn *ssa.Function, args []Value) Value {
		return in.ts.SSuffix(in.sliceStr(args[1].(SliceV)), in.sliceStr(args[0].(SliceV)))
	})
	r("bytes.Contains", func(in *Interp, caller *frame, fn *ssa.Function, args []Value) Value {
		return in.ts.SContains(in.sliceStr(args[0].(SliceV)), in.sliceStr(args[1].(SliceV)))
	})
	r("os.Getenv", func(in *Interp, caller *frame, fn *ssa.Function, args []Value) Value {
		return in.ts.App("os.getenv", StrSort, args[0].(*Term)) // the environment is outside: some string per name
	})
	r("os.LookupEnv", func(in *Interp, caller *frame, fn *ssa.Function, args []Value) Value {
		return Tuple{in.ts.App("os.getenv", StrSort, args[0].(*Term)), in.ts.App("os.hasenv", BoolSort, args[0].(*Term))}
	})
	r("strings.TrimSuffix", func(in *Interp, caller *frame, fn *ssa.Function, args []Value) Value {
		st, suf := args[0].(*Term), args[1].(*Term)
		if st.IsConst() && suf.IsConst() {
			return in.ts.Str(strings.TrimSuffix(st.s, suf.s))
		}
		ts := in.ts
		return ts.Ite(ts.SSuffix(suf, st), ts.SSubstr(st, ts.Int(0), ts.ISub(ts.SLen(st), ts.SLen(suf))), st)
	})
	r("strings.TrimPrefix", func(in *Interp, caller *frame, fn *ssa.Function, args []Value) Value {
		st, pre := args[0].(*Term), args[1].(*Term)
		if st.IsConst() && pre.IsConst() {
			return in.ts.Str(strings.TrimPrefix(st.s, pre.s))
		}
		ts := in.ts
		if st.op == OSConcat && len(st.args) > 0 && st.args[0] == pre {
			return ts.SConcat(st.args[1:]...)
		}
		return ts.Ite(ts.SPrefix(pre, st), ts.SSubstr(st, ts.SLen(pre), ts.ISub(ts.SLen(st), ts.SLen(pre))), st)
	})
	r("strings.Index", func(in *Interp, caller *frame, fn *ssa.Function, args []Value) Value {
		return in.ts.BV(64, uint64(int64(strings.Index(mustStr(args[0], "strings.Index"), mustStr(args[1], "strings.Index")))))
	})
	r("strings.EqualFold", func(in *Interp, caller *frame, fn *ssa.Function, args []Value) Value {
		return in.ts.Bool(strings.EqualFold(mustStr(args[0], "strings.EqualFold"), mustStr(args[1], "strings.EqualFold")))
	})

	// strings.Builder: struct{addr *Builder; buf []byte}
	sbBuf := func(in *Interp, v Value) Ptr {
		p := v.(Ptr)
		if p == nil {
			in.rtPanic("nil *strings.Builder")
		}
		st := (*p).(Struct)
		return &st[1]
	}
	r("(*strings.Builder).WriteString", func(in *Interp, caller *frame, fn *ssa.Function, args []Value) Value {
		b := sbBuf(in, args[0])
		s := in.strToBytes(args[1].(*Term))
		*b = in.appendSlices((*b).(SliceV), s)
		return Tuple{in.lenTerm(s), Iface{}}
	})
	r("(*strings.Builder).WriteByte", func(in *Interp, caller *frame, fn *ssa.Function, args []Value) Value {
		b := sbBuf(in, args[0])
		*b = in.appendSlices((*b).(SliceV), SliceV{A: []Value{args[1]}})
		return Iface{}
	})
	r("(*strings.Builder).WriteRune", func(in *Interp, caller *frame, fn *ssa.Function, args []Value) Value {
		b := sbBuf(in, args[0])
		rn, ok := cint(args[1])
		if !ok {
			panic(unsupported("WriteRune symbolic"))
		}
		s := in.strToBytes(in.ts.Str(string(rune(rn))))
		*b = in.appendSlices((*b).(SliceV), s)
		return Tuple{in.lenTerm(s), Iface{}}
	})
	r("(*strings.Builder).String", func(in *Interp, caller *frame, fn *ssa.Function, args []Value) Value {
		return in.sliceStr((*sbBuf(in, args[0])).(SliceV))
	})
	r("(*strings.Builder).Len", func(in *Interp, caller *frame, fn *ssa.Function, args []Value) Value {
		return in.lenTerm((*sbBuf(in, args[0])).(SliceV))
	})
	r("(*strings.Builder).Grow", nop)
	r("(*strings.Builder).Reset", func(in *Interp, caller *frame, fn *ssa.Function, args []Value) Value {
		*sbBuf(in, args[0]) = SliceV{}
		return nil
	})

	// strconv
	r("strconv.Itoa", func(in *Interp, caller *frame, fn *ssa.Function, args []Value) Value {
		if n, ok := cint(args[0]); ok {
			return in.ts.Str(strconv.FormatInt(n, 10))
		}
		return in.ts.App("itoa", StrSort, args[0].(*Term))
	})
	r("strconv.FormatInt", func(in *Interp, caller *frame, fn *ssa.Function, args []Value) Value {
		n, ok := cint(args[0])
		b, ok2 := cint(args[1])
		if ok && ok2 {
			return in.ts.Str(strconv.FormatInt(n, int(b)))
		}
		return in.ts.App("itoa", StrSort, args[0].(*Term))
	})
	r("strconv.FormatUint", func(in *Interp, caller *frame, fn *ssa.Function, args []Value) Value {
		t := args[0].(*Term)
		b, ok2 := cint(args[1])
		if t.IsConst() && ok2 {
			return in.ts.Str(strconv.FormatUint(t.u, int(b)))
		}
		return in.ts.App("utoa", StrSort, t)
	})
	r("strconv.Atoi", func(in *Interp, caller *frame, fn *ssa.Function, args []Value) Value {
		s := mustStr(args[0], "strconv.Atoi")
		n, err := strconv.Atoi(s)
		if err != nil {
			return Tuple{in.ts.BV(64, 0), in.newError(in.ts.Str(err.Error()))}
		}
		return Tuple{in.ts.BV(64, uint64(int64(n))), Iface{}}
	})
	r("strconv.ParseInt", func(in *Interp, caller *frame, fn *ssa.Function, args []Value) Value {
		b, _ := cint(args[1])
		bs, _ := cint(args[2])
		if s, ok := cstr(args[0]); ok {
			n, err := strconv.ParseInt(s, int(b), int(bs))
			if err != nil {
				return Tuple{in.ts.BV(64, uint64(n)), in.newError(in.ts.Str(err.Error()))}
			}
			return Tuple{in.ts.BV(64, uint64(n)), Iface{}}
		}
		// symbolic text: error or arbitrary value with itoa(value) == text (canonical decimal)
		st := args[0].(*Term)
		okc := in.ts.App("parseint.ok", BoolSort, st)
		if in.branch(nil, nil, okc) {
			v := in.ts.App("parseint.val", BVSort(64), st)
			return Tuple{v, Iface{}}
		}
		return Tuple{in.ts.BV(64, 0), in.newError(in.ts.Str("strconv.ParseInt: invalid syntax"))}
	})
	r("strconv.ParseUint", func(in *Interp, caller *frame, fn *ssa.Function, args []Value) Value {
		b, _ := cint(args[1])
		bs, _ := cint(args[2])
		n, err := strconv.ParseUint(mustStr(args[0], "strconv.ParseUint"), int(b), int(bs))
		if err != nil {
			return Tuple{in.ts.BV(64, n), in.newError(in.ts.Str(err.Error()))}
		}
		return Tuple{in.ts.BV(64, n), Iface{}}
	})
	r("strconv.Quote", func(in *Interp, caller *frame, fn *ssa.Function, args []Value) Value {
		return in.ts.Str(strconv.Quote(mustStr(args[0], "strconv.Quote")))
	})

	// sort
	r("sort.Ints", func(in *Interp, caller *frame, fn *ssa.Function, args []Value) Value {
		in.sortSlice(args[0].(SliceV), func(a, b Value) bool {
			x, ok1 := cint(a)
			y, ok2 := cint(b)
			if !ok1 || !ok2 {
				panic(unsupported("sort.Ints on symbolic ints"))
			}
			return x < y
		})
		return nil
	})
	r("sort.Strings", func(in *Interp, caller *frame, fn *ssa.Function, args []Value) Value {
		sl := args[0].(SliceV)
		allConst := true
		for _, e := range sl.A {
			if t, ok := e.(*Term); !ok || !t.IsConst() {
				allConst = false
			}
		}
		if allConst {
			in.sortSlice(sl, func(a, b Value) bool {
				return mustStr(a, "sort.Strings") < mustStr(b, "sort.Strings")
			})
			return nil
		}
		// symbolic strings: insertion sort forking on the bytewise order (ts.StrLt)
		for i := 1; i < len(sl.A); i++ {
			for j := i; j > 0; j-- {
				a, ok1 := sl.A[j].(*Term)
				b, ok2 := sl.A[j-1].(*Term)
				if !ok1 || !ok2 {
					panic(unsupported("sort.Strings: element is not a string term"))
				}
				if !in.branch(nil, nil, in.ts.StrLt(a, b)) {
					break
				}
				sl.A[j], sl.A[j-1] = sl.A[j-1], sl.A[j]
			}
		}
		return nil
	})
	sortSliceFn := func(in *Interp, caller *frame, fn *ssa.Function, args []Value) Value {
		s := args[0].(Iface).V.(SliceV)
		// stable insertion sort driven by the interpreted less(i,j)
		n := len(s.A)
		for i := 1; i < n; i++ {
			for j := i; j > 0; j-- {
				lt := in.callValue(caller, args[1], []Value{in.ts.BV(64, uint64(j)), in.ts.BV(64, uint64(j-1))}, nil).(*Term)
				if !in.branch(nil, nil, lt) {
					break
				}
				s.A[j], s.A[j-1] = s.A[j-1], s.A[j]
			}
		}
		return nil
	}
	r("sort.Slice", sortSliceFn)
	r("sort.SliceStable", sortSliceFn)

	// reflect / bytes
	r("reflect.DeepEqual", func(in *Interp, caller *frame, fn *ssa.Function, args []Value) Value {
		return in.deepEq(args[0], args[1])
	})
	r("bytes.Equal", func(in *Interp, caller *frame, fn *ssa.Function, args []Value) Value {
		return in.bytesEq(args[0].(SliceV), args[1].(SliceV))
	})
	r("bytes.Compare", func(in *Interp, caller *frame, fn *ssa.Function, args []Value) Value {
		a, ok1 := concBytes(args[0].(SliceV))
		b, ok2 := concBytes(args[1].(SliceV))
		if !ok1 || !ok2 {
			panic(unsupported("bytes.Compare on symbolic bytes"))
		}
		return in.ts.BV(64, uint64(int64(strings.Compare(string(a), string(b)))))
	})
	r("bytes.NewBuffer", func(in *Interp, caller *frame, fn *ssa.Function, args []Value) Value {
		b := &bufObj{}
		if s := args[0].(SliceV); s.A != nil || s.Blob != nil {
			b.parts = append(b.parts, s)
		}
		var cell Value = &Opaque{Kind: "bytes.Buffer", Data: b}
		return Ptr(&cell)
	})
	r("bytes.NewBufferString", func(in *Interp, caller *frame, fn *ssa.Function, args []Value) Value {
		b := &bufObj{}
		b.parts = append(b.parts, in.strToBytes(args[0].(*Term)))
		var cell Value = &Opaque{Kind: "bytes.Buffer", Data: b}
		return Ptr(&cell)
	})
	bufOf := func(in *Interp, v Value) *bufObj {
		p := v.(Ptr)
		if p == nil {
			in.rtPanic("nil *bytes.Buffer")
		}
		if op, ok := (*p).(*Opaque); ok {
			return op.Data.(*bufObj)
		}
		// zero-value bytes.Buffer struct: upgrade in place
		b := &bufObj{}
		*p = &Opaque{Kind: "bytes.Buffer", Data: b}
		return b
	}
	r("(*bytes.Buffer).Write", func(in *Interp, caller *frame, fn *ssa.Function, args []Value) Value {
		b := bufOf(in, args[0])
		s := args[1].(SliceV)
		b.parts = append(b.parts, s)
		return Tuple{in.lenTerm(s), Iface{}}
	})
	r("(*bytes.Buffer).WriteString", func(in *Interp, caller *frame, fn *ssa.Function, args []Value) Value {
		b := bufOf(in, args[0])
		s := in.strToBytes(args[1].(*Term))
		b.parts = append(b.parts, s)
		return Tuple{in.lenTerm(s), Iface{}}
	})
	r("(*bytes.Buffer).WriteByte", func(in *Interp, caller *frame, fn *ssa.Function, args []Value) Value {
		b := bufOf(in, args[0])
		b.parts = append(b.parts, SliceV{A: []Value{args[1]}})
		return Iface{}
	})
	r("(*bytes.Buffer).Bytes", func(in *Interp, caller *frame, fn *ssa.Function, args []Value) Value {
		return in.bufBytes(bufOf(in, args[0]))
	})
	r("(*bytes.Buffer).String", func(in *Interp, caller *frame, fn *ssa.Function, args []Value) Value {
		return in.sliceStr(in.bufBytes(bufOf(in, args[0])))
	})
	r("(*bytes.Buffer).Len", func(in *Interp, caller *frame, fn *ssa.Function, args []Value) Value {
		return in.lenTerm(in.bufBytes(bufOf(in, args[0])))
	})

	// hex / base64
	r("encoding/hex.EncodeToString", func(in *Interp, caller *frame, fn *ssa.Function, args []Value) Value {
		s := args[0].(SliceV)
		if b, ok := concBytes(s); ok {
			in.noteConcrete("hex", string(b), hex.EncodeToString(b))
			return in.ts.Str(hex.EncodeToString(b))
		}
		in.injUFs["hex"] = true
		return in.ts.App("hex", StrSort, in.sliceStr(s))
	})
	r("encoding/hex.DecodeString", func(in *Interp, caller *frame, fn *ssa.Function, args []Value) Value {
		if s, ok := cstr(args[0]); ok {
			b, err := hex.DecodeString(s)
			if err != nil {
				return Tuple{in.mkBytes(b), in.newError(in.ts.Str(err.Error()))}
			}
			return Tuple{in.mkBytes(b), Iface{}}
		}
		st := args[0].(*Term)
		if in.branch(nil, nil, in.ts.App("unhex.ok", BoolSort, st)) {
			return Tuple{SliceV{Blob: in.strBlob(in.ts.App("unhex", StrSort, st))}, Iface{}}
		}
		return Tuple{SliceV{}, in.newError(in.ts.Str("encoding/hex: invalid byte"))}
	})
	r("(*encoding/base64.Encoding).EncodeToString", func(in *Interp, caller *frame, fn *ssa.Function, args []Value) Value {
		s := args[1].(SliceV)
		if b, ok := concBytes(s); ok {
			in.noteConcrete("b64", string(b), base64.StdEncoding.EncodeToString(b))
			return in.ts.Str(base64.StdEncoding.EncodeToString(b))
		}
		in.injUFs["b64"] = true
		return in.ts.App("b64", StrSort, in.sliceStr(s))
	})
	r("(*encoding/base64.Encoding).DecodeString", func(in *Interp, caller *frame, fn *ssa.Function, args []Value) Value {
		if s, ok := cstr(args[1]); ok {
			b, err := base64.StdEncoding.DecodeString(s)
			if err != nil {
				return Tuple{in.mkBytes(b), in.newError(in.ts.Str(err.Error()))}
			}
			return Tuple{in.mkBytes(b), Iface{}}
		}
		st := args[1].(*Term)
		if st.op == OApp && st.s == "b64" {
			return Tuple{SliceV{Blob: in.strBlob(st.args[0])}, Iface{}}
		}
		if in.branch(nil, nil, in.ts.App("unb64.ok", BoolSort, st)) {
			return Tuple{SliceV{Blob: in.strBlob(in.ts.App("unb64", StrSort, st))}, Iface{}}
		}
		return Tuple{SliceV{}, in.newError(in.ts.Str("illegal base64 data"))}
	})

	// context
	r("context.Background", func(in *Interp, caller *frame, fn *ssa.Function, args []Value) Value {
		return Iface{T: types.Typ[types.Int], V: &Opaque{Kind: "context", Data: &ChanV{Kind: "done"}}}
	})
	r("context.TODO", func(in *Interp, caller *frame, fn *ssa.Function, args []Value) Value {
		return Iface{T: types.Typ[types.Int], V: &Opaque{Kind: "context", Data: &ChanV{Kind: "done"}}}
	})
	r("context.WithCancel", func(in *Interp, caller *frame, fn *ssa.Function, args []Value) Value {
		ch := &ChanV{Kind: "done"}
		ctx := Iface{T: types.Typ[types.Int], V: &Opaque{Kind: "context", Data: ch}}
		cancel := &IntrinsicFn{Name: "cancel", Fn: func(in *Interp, a []Value) Value { ch.Closed = true; return nil }}
		return Tuple{ctx, cancel}
	})
	_ = nop
	_ = sort.Ints
}

type bufObj struct{ parts []SliceV }

func (in *Interp) bufBytes(b *bufObj) SliceV {
	if len(b.parts) == 0 {
		return SliceV{}
	}
	if len(b.parts) == 1 {
		return b.parts[0]
	}
	anyBlob := false
	for _, p := range b.parts {
		if p.Blob != nil {
			anyBlob = true
		}
	}
	if !anyBlob {
		var a []Value
		for _, p := range b.parts {
			a = append(a, p.A...)
		}
		return SliceV{A: a}
	}
	var ps []*Term
	for _, p := range b.parts {
		ps = append(ps, in.sliceStr(p))
	}
	return SliceV{Blob: in.strBlob(in.ts.SConcat(ps...))}
}

func (in *Interp) sortSlice(s SliceV, less func(a, b Value) bool) {
	sort.SliceStable(s.A, func(i, j int) bool { return less(s.A[i], s.A[j]) })
}

// opaqueMethod dispatches interface method calls on engine objects.
func (in *Interp) opaqueMethod(op *Opaque, name string, args []Value) Value {
	switch op.Kind {
	case "context":
		switch name {
		case "Done":
			return op.Data.(*ChanV)
		case "Err":
			if op.Data.(*ChanV).Closed {
				return in.newError(in.ts.Str("context canceled"))
			}
			return Iface{}
		}
	}
	if h, ok := opaqueMethods[op.Kind+"."+name]; ok {
		return h(in, op, args)
	}
	panic(unsupported("method " + name + " on opaque " + op.Kind))
}

var opaqueMethods = map[string]func(in *Interp, op *Opaque, args []Value) Value{}

// yield is a scheduling point (mutex ops, store calls); sequential execution: no-op.
func (in *Interp) yield(what string, obj Value) {}

func (in *Interp) hookTick(ch *ChanV) bool {
	// a ticker fires a bounded number of times (param "ticks", default 1), then never again
	max := 1
	if s, ok := in.params["ticks"]; ok {
		max, _ = strconv.Atoi(s)
	}
	if ch.Ticks >= max {
		return false
	}
	ch.Ticks++
	return true
}

func (in *Interp) initForeignGlobal(g *ssa.Global, cell Ptr, et types.Type) {
	if g.Pkg != nil && initPkgs[g.Pkg.Pkg.Path()] {
		return // initialised by its interpreted package init
	}
	if it, ok := et.Underlying().(*types.Interface); ok && it.NumMethods() == 1 && it.Method(0).Name() == "Error" {
		*cell = in.newError(in.ts.Str(g.Pkg.Pkg.Path() + "." + g.Name()))
		return
	}
	full := g.Pkg.Pkg.Path() + "." + g.Name()
	switch full {
	case "encoding/base64.StdEncoding", "encoding/base64.URLEncoding", "encoding/base64.RawStdEncoding":
		var c Value = &Opaque{Kind: "base64.Encoding", Data: g.Name()}
		*cell = Ptr(&c)
		return
	case "encoding/binary.LittleEndian", "encoding/binary.BigEndian":
		return
	case "crypto/rand.Reader":
		*cell = Iface{T: types.Typ[types.Int], V: &Opaque{Kind: "rand.Reader"}}
		return
	case "os.Stdout", "os.Stderr", "os.Stdin":
		var c Value = &Opaque{Kind: "os.File", Data: g.Name()}
		*cell = Ptr(&c)
		return
	}
	in.res.note("foreign global read as zero value: " + full)
}
