package main

// Contract stubs for the Pedersen DKG / VSS part of kyber v1.6.0 as far as dc4bc's dkg package touches it (C11).
// The verdicts kyber computes (does the deal decrypt, is its signature valid, is the share consistent with the deal's own
// commitments, which commitments does the deal carry) are *inputs* here: in symbolic mode the harness describes them in the
// plaintext descriptor it puts where the ciphertext would be (EncryptedDeal.Cipher = JSON {commits, status, decrypt_ok,
// sig_ok}); the stubs only replay kyber's documented control flow around those verdicts:
//  * NewDistKeyGenerator (dkg.go:245,176-188): fails unless pub(longterm) is among the participants; own index = position.
//  * ProcessDeal (dkg.go:325): error for an index >= n ("out of bounds"), an invalid dealer signature, a deal processed
//    twice, or a deal that does not decrypt; otherwise a Response carrying Status.
//  * Verifiers()[i].DecryptDeal (vss.go:395): error or the plaintext deal with the commitments the dealer put in.
//  * Point.Equal: equality of encodings.

import (
	"fmt"
	"go/types"
	"sort"

	"golang.org/x/tools/go/ssa"
)

type kScalar struct{ t *Term } // Str identity
type kGen struct {
	id        int
	own, n, t int
	reader    *Term // identity of the randomness the dealer polynomial is drawn from
	suiteSeed *Term
	pks       []*Term
	processed map[string]bool
	responses map[int]Value // dealer index -> *vss.Response this participant gave (recorded by ProcessDeal)
	deals     map[int]*kDealInfo   // dealer index -> what this participant holds from that dealer (intrin_air.go)
	resps     map[int]map[int]*Term // dealer index -> responder index -> status
	suite     *kSuite               // the suite given to NewDistKeyGenerator: Schnorr nonces are drawn from ITS stream
	long      *Term                 // long-term secret (scalar identity)
}

// seedStr: the identity of a suite seed. A seed that consists of all the bytes of one bit-vector term in order (a SHA-256
// digest of symbolic data: 32 byte extracts of one uninterpreted 256-bit value) is named by that value instead of by a
// concatenation of 32 one-byte sequences; injectivity axioms over such concatenations are what z3 chokes on.
func (in *Interp) seedStr(seed SliceV) *Term {
	if seed.Blob == nil && len(seed.A) >= 8 {
		var base *Term
		ok := true
		n := len(seed.A)
		for i, e := range seed.A {
			t, isT := e.(*Term)
			if !isT || t.op != OExtract || len(t.args) != 1 {
				ok = false
				break
			}
			hi, lo := int(t.u>>16), int(t.u&0xffff)
			if base == nil {
				base = t.args[0]
			}
			if t.args[0] != base || base.sort.W != 8*n || hi != 8*(n-i)-1 || lo != 8*(n-i)-8 {
				ok = false
				break
			}
		}
		if ok && base != nil {
			in.injUFs["bv2str"] = true
			return in.ts.App("bv2str", StrSort, base)
		}
	}
	return in.sliceStr(seed)
}

// schnorrSig: kyber sign/schnorr.Sign(suite, long, msg) draws its nonce k from suite.RandomStream() (schnorr.go:35) and
// returns R || s with R = k*G. Modelled as R(nonce) ++ s(long, nonce) where nonce = the next draw of the suite's stream
// (a seeded suite's stream is a function of its seed and the position; an unseeded one draws fresh values).
func (in *Interp) schnorrSig(g *kGen) SliceV {
	ts := in.ts
	var nonce *Term
	if g.suite == nil || (g.suite.seed.A == nil && g.suite.seed.Blob == nil) {
		in.opq++
		nonce = ts.FreshSym(fmt.Sprintf("cryptorand.nonce#%d", in.opq), StrSort)
	} else {
		// the k-th value of the seeded suite's stream. Its injectivity in (seed, position) is only asserted where a harness
		// asks for it (vf.Injective("schnorr.nonce")): the quadratic number of axioms over string-valued terms is costly
		nonce = ts.App("schnorr.nonce", StrSort, in.seedStr(g.suite.seed), ts.Int(int64(g.suite.draws)))
		g.suite.draws++
	}
	long := g.long
	if long == nil {
		long = ts.Str("<zero scalar>")
	}
	// (schnorr.R is injective - R = k*G - but the quadratic number of axioms is only paid where a harness asks for it:
	// vf.Injective("schnorr.R"))
	return in.strToBytes(ts.SConcat(ts.App("schnorr.R", StrSort, nonce), ts.App("schnorr.s", StrSort, long, nonce)))
}

type kVerifier struct {
	g   *kGen
	idx int
}

func (in *Interp) invokeMethod(recv Value, t types.Type, name string, args ...Value) Value {
	m := hasMethod(in.P, t, name)
	if m == nil {
		panic(unsupported("no method " + name + " on " + t.String()))
	}
	return in.callFunc(in.cur, m, append([]Value{recv}, args...), nil, nil)
}

func registerKyberDKG(P *Program) {
	r := P.reg
	const kb = "github.com/corestario/kyber"
	const ped = kb + "/share/dkg/pedersen"
	const vss = kb + "/share/vss/pedersen"

	// sort.Sort over an interpreted sort.Interface (insertion sort through Len/Less/Swap)
	r("sort.Sort", func(in *Interp, caller *frame, fn *ssa.Function, args []Value) Value {
		d := args[0].(Iface)
		n := in.concreteInt(in.invokeMethod(d.V, d.T, "Len").(*Term), "sort.Len")
		for i := 1; i < n; i++ {
			for j := i; j > 0; j-- {
				lt := in.invokeMethod(d.V, d.T, "Less", in.ts.BV(64, uint64(j)), in.ts.BV(64, uint64(j-1))).(*Term)
				if !in.branch(nil, nil, lt) {
					break
				}
				in.invokeMethod(d.V, d.T, "Swap", in.ts.BV(64, uint64(j)), in.ts.BV(64, uint64(j-1)))
			}
		}
		return nil
	})
	r("math.Pow", func(in *Interp, caller *frame, fn *ssa.Function, args []Value) Value {
		x, y := args[0].(float64), args[1].(float64)
		res := 1.0
		for i := 0; i < int(y); i++ {
			res *= x
		}
		return res
	})
	r("lukechampine.com/frand.NewCustom", func(in *Interp, caller *frame, fn *ssa.Function, args []Value) Value {
		if sd := args[0].(SliceV); sd.Blob == nil && len(sd.A) != 32 {
			panic(&goPanic{msg: "frand: invalid seed size", stack: in.stack()})
		}
		var cell Value = &Opaque{Kind: "frand", Data: in.sliceStr(args[0].(SliceV))}
		return Ptr(&cell)
	})
	// scalars / points
	opaqueMethods["kyber.suite.Scalar"] = func(in *Interp, op *Opaque, args []Value) Value {
		return Iface{T: types.Typ[types.Int], V: &Opaque{Kind: "kyber.scalar", Data: &kScalar{}}}
	}
	opaqueMethods["kyber.group.Scalar"] = opaqueMethods["kyber.suite.Scalar"]
	// RandomStream of a suite seeded with s: one continuing deterministic stream per suite object; the k-th scalar picked
	// from it is pick(s, k). An unseeded suite draws from crypto/rand: fresh values.
	opaqueMethods["kyber.suite.RandomStream"] = func(in *Interp, op *Opaque, args []Value) Value {
		return Iface{T: types.Typ[types.Int], V: &Opaque{Kind: "kyber.stream", Data: op.Data.(*kSuite)}}
	}
	opaqueMethods["kyber.scalar.Pick"] = func(in *Interp, op *Opaque, args []Value) Value {
		su := args[0].(Iface).V.(*Opaque).Data.(*kSuite)
		if su.seed.A == nil && su.seed.Blob == nil {
			in.opq++
			op.Data.(*kScalar).t = in.ts.FreshSym(fmt.Sprintf("cryptorand.scalar#%d", in.opq), StrSort)
		} else {
			in.injUFs["kyber.pick"] = true
			op.Data.(*kScalar).t = in.ts.App("kyber.pick", StrSort, in.seedStr(su.seed), in.ts.Int(int64(su.draws)))
			su.draws++
		}
		return Iface{T: types.Typ[types.Int], V: op}
	}
	opaqueMethods["kyber.scalar.MarshalBinary"] = func(in *Interp, op *Opaque, args []Value) Value {
		s := op.Data.(*kScalar)
		if s.t == nil {
			return Tuple{in.mkBytes(make([]byte, 32)), Iface{}}
		}
		enc := in.ts.App("kyber.scalar.enc", StrSort, s.t)
		return Tuple{in.strToBytes(enc), Iface{}}
	}
	opaqueMethods["kyber.point.Mul"] = func(in *Interp, op *Opaque, args []Value) Value {
		s := args[0].(Iface).V.(*Opaque).Data.(*kScalar)
		if s.t == nil {
			s.t = in.ts.Str("<zero scalar>")
		}
		in.injUFs["kyber.pub"] = true
		op.Data.(*kPoint).enc = in.ts.App("kyber.pub", StrSort, s.t)
		return Iface{T: types.Typ[types.Int], V: op}
	}
	opaqueMethods["kyber.point.Equal"] = func(in *Interp, op *Opaque, args []Value) Value {
		o, ok := args[0].(Iface).V.(*Opaque)
		if !ok {
			return in.ts.False()
		}
		a, b := op.Data.(*kPoint).enc, o.Data.(*kPoint).enc
		if a == nil || b == nil {
			return in.ts.Bool(a == nil && b == nil)
		}
		return in.ts.Eq(a, b)
	}
	genOf := func(in *Interp, v Value) *kGen {
		p, ok := v.(Ptr)
		if !ok || p == nil {
			in.rtPanic("nil *dkg.DistKeyGenerator")
		}
		return (*p).(*Opaque).Data.(*kGen)
	}
	r(ped+".NewDistKeyGenerator", func(in *Interp, caller *frame, fn *ssa.Function, args []Value) Value {
		sk := args[1].(Iface).V.(*Opaque).Data.(*kScalar)
		if sk.t == nil {
			sk.t = in.ts.Str("<zero scalar>")
		}
		in.injUFs["kyber.pub"] = true
		own := in.ts.App("kyber.pub", StrSort, sk.t)
		g := &kGen{own: -1, processed: map[string]bool{}, long: sk.t}
		for i, p := range args[2].(SliceV).A {
			enc := p.(Iface).V.(*Opaque).Data.(*kPoint).enc
			if enc == nil {
				enc = in.ts.Str("<null>")
			}
			g.pks = append(g.pks, enc)
			if g.own < 0 && in.branch(nil, nil, in.ts.Eq(enc, own)) {
				g.own = i
			}
		}
		g.n = len(g.pks)
		if g.own < 0 {
			return Tuple{Ptr(nil), in.newError(in.ts.Str("dkg: own public key not found in list of participants"))}
		}
		in.opq++
		g.id = in.opq
		// dkg.go NewDistKeyHandler: threshold 0 means vss.MinimumT(n) = (n+1)/2; vss.NewDealer refuses t outside [2, n]
		tT := args[3].(*Term)
		if in.branch(nil, nil, in.ts.Eq(tT, in.ts.BV(64, 0))) {
			tT = in.ts.BV(64, uint64((g.n+1)/2))
		}
		if !in.branch(nil, nil, in.ts.And(in.ts.BvSle(in.ts.BV(64, 2), tT), in.ts.BvSle(tT, in.ts.BV(64, uint64(g.n))))) {
			return Tuple{Ptr(nil), in.newError(in.ts.Str("dealer: t invalid"))}
		}
		g.t = int(in.forkValues(tT, 16))
		g.reader = in.ts.Str("<nil reader>")
		if rd, ok := args[4].(Iface); ok && rd.T != nil {
			if p, ok := rd.V.(Ptr); ok && p != nil {
				if op, ok := (*p).(*Opaque); ok && op.Kind == "frand" {
					g.reader = op.Data.(*Term)
				}
			}
		}
		if so, ok := args[0].(Iface).V.(*Opaque); ok {
			if su, ok := so.Data.(*kSuite); ok && (su.seed.A != nil || su.seed.Blob != nil) {
				g.suiteSeed = in.seedStr(su.seed)
			}
			if su, ok := so.Data.(*kSuite); ok {
				g.suite = su
			}
		}
		var cell Value = &Opaque{Kind: "kyber.dkg", Data: g}
		return Tuple{Ptr(&cell), Iface{}}
	})
	// the plaintext descriptor of a deal (symbolic mode): EncryptedDeal.Cipher holds JSON {commits,status,decrypt_ok,sig_ok}
	type dealDesc struct {
		commits           []SliceV
		status, decOK, ok *Term
		to, share         *SliceV
	}
	descOf := func(in *Interp, enc Value) *dealDesc {
		p, isP := enc.(Ptr)
		if !isP || p == nil {
			in.rtPanic("nil *vss.EncryptedDeal")
		}
		cipher := (*p).(Struct)[3].(SliceV)
		if cipher.Blob == nil || cipher.Blob.Node == nil || cipher.Blob.Node.K != JObj {
			// not something an honest dealer's Deals() produced: the dealer signature over it verifies or not (unknown),
			// and it does not decrypt to a deal
			in.opq++
			return &dealDesc{ok: in.ts.FreshSym(fmt.Sprintf("schnorr.verifies#%d", in.opq), BoolSort), decOK: in.ts.False(), status: in.ts.False()}
		}
		d := &dealDesc{}
		n := cipher.Blob.Node
		for i, k := range n.Keys {
			v := n.Vals[i]
			switch k.s {
			case "commits":
				for _, e := range v.Elems {
					d.commits = append(d.commits, e.Bytes)
				}
			case "status":
				d.status = v.T
			case "decrypt_ok":
				d.decOK = v.T
			case "sig_ok":
				d.ok = v.T
			case "to":
				b := v.Bytes
				d.to = &b
			case "share":
				b := v.Bytes
				d.share = &b
			}
		}
		return d
	}
	respT := func() (types.Type, types.Type) { return P.namedType(ped, "Response"), P.namedType(vss, "Response") }
	r("(*"+ped+".DistKeyGenerator).ProcessDeal", func(in *Interp, caller *frame, fn *ssa.Function, args []Value) Value {
		ts := in.ts
		g := genOf(in, args[0])
		dp, _ := args[1].(Ptr)
		if dp == nil {
			in.rtPanic("nil *dkg.Deal")
		}
		deal := (*dp).(Struct)
		idx := deal[0].(*Term)
		fail := func(m string) Value { return Tuple{Ptr(nil), in.newError(ts.Str(m))} }
		if !in.branch(nil, nil, ts.BvUlt(idx, ts.BV(32, uint64(g.n)))) {
			return fail("dkg: deal with out of bounds index")
		}
		i := int(in.forkValues(idx, 8))
		d := descOf(in, deal[1])
		if !in.branch(nil, nil, d.ok) {
			return fail("schnorr: invalid signature")
		}
		key := fmt.Sprint(i)
		if g.processed[key] {
			return fail("dkg: verifier already received a deal")
		}
		if !in.branch(nil, nil, d.decOK) {
			return fail("vss: cannot decrypt deal")
		}
		if d.to != nil && !in.branch(nil, nil, ts.Eq(in.sliceStr(*d.to), g.pks[g.own])) {
			return fail("vss: cannot decrypt deal") // sealed for another participant's key
		}
		g.processed[key] = true
		{
			di := &kDealInfo{status: d.status}
			for _, c := range d.commits {
				di.commits = append(di.commits, in.sliceStr(c))
			}
			if d.share != nil {
				if sv, ok := in.sealTable()[in.sliceStr(*d.share)]; ok {
					di.share = sv.term
				}
			}
			if di.share == nil {
				in.opq++
				di.share = ts.FreshSym(fmt.Sprintf("dkg.foreign.share#%d", in.opq), StrSort)
			}
			if g.deals == nil {
				g.deals = map[int]*kDealInfo{}
			}
			g.deals[i] = di
			if g.resps == nil {
				g.resps = map[int]map[int]*Term{}
			}
			if g.resps[i] == nil {
				g.resps[i] = map[int]*Term{}
			}
			g.resps[i][g.own] = d.status
			// dkg.go ProcessDeal: "set his response to approval since he won't issue his own response for his own deal"
			if _, has := g.resps[i][i]; !has {
				g.resps[i][i] = ts.True()
			}
		}
		rt, vrt := respT()
		inner := in.zero(vrt).(Struct)
		inner[0] = in.mkBytes([]byte("session"))
		inner[1] = ts.BV(32, uint64(g.own))
		inner[2] = d.status
		inner[3] = in.schnorrSig(g)
		var ic Value = inner
		if g.responses == nil {
			g.responses = map[int]Value{}
		}
		g.responses[i] = Ptr(&ic) // kyber records the response in the dealer's verifier (Aggregator.responses)
		outer := in.zero(rt).(Struct)
		outer[0] = ts.BV(32, uint64(i))
		outer[1] = Ptr(&ic)
		var oc Value = outer
		return Tuple{Ptr(&oc), Iface{}}
	})
	// dealer polynomial: drawn from the reader given to NewDistKeyGenerator only (UserReaderOnly; vss.NewDealer draws all
	// coefficients from that stream, vss.go:133) => a function of (reader identity, t)
	r("(*"+ped+".DistKeyGenerator).GetDealer", func(in *Interp, caller *frame, fn *ssa.Function, args []Value) Value {
		var cell Value = &Opaque{Kind: "kyber.dealer", Data: genOf(in, args[0])}
		return Ptr(&cell)
	})
	r("(*"+vss+".Dealer).Commits", func(in *Interp, caller *frame, fn *ssa.Function, args []Value) Value {
		g := (*args[0].(Ptr)).(*Opaque).Data.(*kGen)
		var pts []Value
		for i := 0; i < g.t; i++ {
			enc := in.ts.App("dkg.dealer.commit", StrSort, g.reader, in.ts.Int(int64(g.t)), in.ts.Int(int64(i)))
			pts = append(pts, Iface{T: types.Typ[types.Int], V: &Opaque{Kind: "kyber.point", Data: &kPoint{enc: enc}}})
		}
		return SliceV{A: pts}
	})
	r("(*"+ped+".DistKeyGenerator).Verifiers", func(in *Interp, caller *frame, fn *ssa.Function, args []Value) Value {
		g := genOf(in, args[0])
		m := NewMap()
		for i := 0; i < g.n; i++ {
			var cell Value = &Opaque{Kind: "kyber.verifier", Data: &kVerifier{g: g, idx: i}}
			in.mapSet(m, types.Typ[types.Uint32], in.ts.BV(32, uint64(i)), Ptr(&cell))
		}
		return m
	})
	// Verifier embeds *Aggregator; Responses() = the responses recorded for this dealer's deal, keyed by responder index
	r("(*"+vss+".Aggregator).Responses", func(in *Interp, caller *frame, fn *ssa.Function, args []Value) Value {
		p, _ := args[0].(Ptr)
		if p == nil {
			in.rtPanic("nil *vss.Aggregator")
		}
		v := (*p).(*Opaque).Data.(*kVerifier)
		m := NewMap()
		if r, ok := v.g.responses[v.idx]; ok {
			in.mapSet(m, types.Typ[types.Uint32], in.ts.BV(32, uint64(v.g.own)), r)
		}
		return m
	})
	r("(*"+vss+".Verifier).DecryptDeal", func(in *Interp, caller *frame, fn *ssa.Function, args []Value) Value {
		if p, _ := args[0].(Ptr); p == nil {
			in.rtPanic("nil *vss.Verifier") // e.g. a deal index without a verifier
		}
		d := descOf(in, args[1])
		if !in.branch(nil, nil, d.decOK) {
			return Tuple{Ptr(nil), in.newError(in.ts.Str("vss: cannot decrypt deal"))}
		}
		dt := P.namedType(vss, "Deal")
		deal := in.zero(dt).(Struct)
		var pts []Value
		for _, c := range d.commits {
			pts = append(pts, Iface{T: types.Typ[types.Int], V: &Opaque{Kind: "kyber.point", Data: &kPoint{enc: in.sliceStr(c)}}})
		}
		deal[3] = SliceV{A: pts}
		var cell Value = deal
		return Tuple{Ptr(&cell), Iface{}}
	})
	_ = sort.Ints
}
