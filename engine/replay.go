package main

// Native replay of a solver model: the same harness compiled against the native vf shim, run with `go test -overlay`.

import (
	"encoding/json"
	"fmt"
	"os"
	"os/exec"
	"path/filepath"
	"strings"
	"time"
)

type ReplaySpec struct {
	Property string
	Pkg      string // repo-relative dir
	Fn       string
	Label    string // assertion label to reproduce; "" with Panic=true for panics
	Panic    bool
	Params   map[string]string
	Model    map[string]ModelVal
	Choices  map[string]int
}

type ReplayResult struct {
	Dir        string
	Reproduced bool
	Output     string
	Seconds    float64
}

func sanitize(s string) string {
	var sb strings.Builder
	for _, c := range s {
		if c >= 'a' && c <= 'z' || c >= 'A' && c <= 'Z' || c >= '0' && c <= '9' || c == '-' || c == '_' {
			sb.WriteRune(c)
		} else {
			sb.WriteByte('_')
		}
	}
	r := sb.String()
	if len(r) > 80 {
		r = r[:80]
	}
	return r
}

func (P *Program) pkgName(rel string) string {
	if p := P.byPath[modPath+"/"+rel]; p != nil {
		return p.Pkg.Name()
	}
	return filepath.Base(rel)
}

func Replay(P *Program, spec ReplaySpec, seq int) ReplayResult {
	t0 := time.Now()
	dir := filepath.Join(verifDir, "replays", spec.Property, fmt.Sprintf("%s-%03d", sanitize(spec.Label+"-"+spec.Fn), seq))
	os.RemoveAll(dir)
	os.MkdirAll(dir, 0o755)
	rr := ReplayResult{Dir: dir}
	inputs := map[string]interface{}{"params": spec.Params, "model": spec.Model, "choices": spec.Choices,
		"label": spec.Label, "harness": spec.Pkg + "." + spec.Fn, "property": spec.Property}
	b, _ := json.MarshalIndent(inputs, "", " ")
	os.WriteFile(filepath.Join(dir, "inputs.json"), b, 0o644)
	test := fmt.Sprintf(`package %s

import (
	"testing"

	"%s/internal/vf"
)

func TestVFReplay(t *testing.T) {
	if p := vf.Run(%s); p != nil {
		t.Fatalf("VF-PANIC %%v", p)
	}
	if vf.AssumeFailed {
		t.Skip("model does not satisfy the harness assumptions natively")
	}
	if len(vf.Violated) > 0 {
		t.Fatalf("VF-VIOLATIONS %%v", vf.Violated)
	}
}
`, P.pkgName(spec.Pkg), modPath, spec.Fn)
	testPath := filepath.Join(dir, "zz_vf_replay_test.go")
	os.WriteFile(testPath, []byte(test), 0o644)
	repl := map[string]string{}
	root := filepath.Join(verifDir, "harness")
	filepath.Walk(root, func(p string, info os.FileInfo, err error) error {
		if err == nil && !info.IsDir() && strings.HasSuffix(p, ".go") {
			rel, _ := filepath.Rel(root, p)
			repl[filepath.Join(repoDir, rel)] = p
		}
		return nil
	})
	repl[filepath.Join(repoDir, "internal", "vf", "vf.go")] = filepath.Join(verifDir, "vf", "native", "vf.go")
	repl[filepath.Join(repoDir, spec.Pkg, "zz_vf_replay_test.go")] = testPath
	ob, _ := json.MarshalIndent(map[string]interface{}{"Replace": repl}, "", " ")
	ovPath := filepath.Join(dir, "overlay.json")
	os.WriteFile(ovPath, ob, 0o644)
	cmdline := fmt.Sprintf("cd %s && VF_MODEL=%s go test -vet=off -count=1 -overlay %s -run '^TestVFReplay$' ./%s", repoDir, filepath.Join(dir, "inputs.json"), ovPath, spec.Pkg)
	os.WriteFile(filepath.Join(dir, "replay.sh"), []byte("#!/bin/sh\nexport GOFLAGS=-mod=mod GOPROXY=off GOSUMDB=off GOTOOLCHAIN=local\n"+cmdline+"\n"), 0o755)
	cmd := exec.Command("go", "test", "-vet=off", "-count=1", "-overlay", ovPath, "-run", "^TestVFReplay$", "./"+spec.Pkg)
	cmd.Dir = repoDir
	cmd.Env = append(os.Environ(), "GOFLAGS=-mod=mod", "GOPROXY=off", "GOSUMDB=off", "GOTOOLCHAIN=local", "VF_MODEL="+filepath.Join(dir, "inputs.json"))
	out, _ := cmd.CombinedOutput()
	rr.Output = string(out)
	os.WriteFile(filepath.Join(dir, "output.txt"), out, 0o644)
	if spec.Panic {
		rr.Reproduced = strings.Contains(rr.Output, "VF-PANIC") || strings.Contains(rr.Output, "panic:")
	} else {
		rr.Reproduced = strings.Contains(rr.Output, "VF-VIOLATED "+spec.Label+"\n")
	}
	rr.Seconds = time.Since(t0).Seconds()
	return rr
}
