package main

// Node-level checks: C09, C10, C08 (round isolation), C18 (node part) share the one-message harness VF_NodeMessage.

import (
	"fmt"
	"sort"
	"strings"
)

const nodePkg = "client/services/node"

var nodeEvents = append(append([]string{}, fsmEvents...), "signature_reconstructed", "signature_reconstruction_failed", "reinit_dkg")

// same-request-type event pairs (payload produced for a -> posted as b)
var sameTypePairs = [][2]string{
	{"event_sig_proposal_confirm_by_participant", "event_sig_proposal_decline_by_participant"},
	{"event_sig_proposal_decline_by_participant", "event_sig_proposal_confirm_by_participant"},
	{"event_dkg_commit_confirm_canceled_by_error", "event_dkg_deal_confirm_canceled_by_error"},
	{"event_dkg_deal_confirm_canceled_by_error", "event_dkg_response_confirm_canceled_by_error"},
	{"event_dkg_response_confirm_canceled_by_error", "event_dkg_master_key_confirm_canceled_by_error"},
	{"event_dkg_master_key_confirm_canceled_by_error", "event_dkg_commit_confirm_canceled_by_error"},
	{"event_signing_partial_sign_error_received", "signature_reconstruction_failed"},
}

// representatives picks abstract states to drive node-level harnesses from: quick = one per state name (n=2),
// thorough = every abstract state of the n=2 graph.
func representatives(cr *CheckRun, g *fsmGraph) []string {
	var all []string
	for a := range g.States {
		all = append(all, a)
	}
	sort.Strings(all)
	if cr.Tier == "thorough" {
		return all
	}
	quick := map[string]bool{
		"state_sig_proposal_await_participants_confirmations": true, "state_sig_proposal_canceled_by_timeout": true,
		"state_dkg_commits_await_confirmations": true, "state_dkg_deals_await_canceled_by_error": true,
		"state_dkg_master_key_await_confirmations": true, "stage_signing_idle": true,
		"state_signing_await_partial_signs": true, "state_signing_partial_signs_await_cancelled_by_error": true,
	}
	seen := map[string]bool{}
	var out []string
	for _, a := range all {
		n := absState(a)
		if !seen[n] && quick[n] {
			seen[n] = true
			out = append(out, a)
		}
	}
	return out
}

func nodeMessageJobs(cr *CheckRun, reps []string) []Job {
	opts := defaultOpts()
	var jobs []Job
	mk := func(a, ev, dataEv string) Job {
		genuine := ""
		if dataEv != "" {
			genuine = "1"
		}
		tag := "state=" + a + " event=" + ev
		cs := "state=" + absState(a) + " event=" + ev
		if dataEv != "" {
			tag += " payload-of=" + dataEv
			cs += " payload-of=" + dataEv
		}
		return Job{Pkg: nodePkg, Fn: "VF_NodeMessage", Opts: opts, Tag: tag, Case: cs,
			Params: map[string]string{"abs": a, "event": ev, "data_event": dataEv, "genuine": genuine, "maxn": "2", "norange": "1", "tag": fmt.Sprintf("%s_%d", cr.ID, len(jobs))}}
	}
	for _, a := range reps {
		if strings.HasPrefix(a, "__idle") {
			continue // a round that does not exist yet: covered by the "unseen" round choice
		}
		for _, ev := range nodeEvents {
			jobs = append(jobs, mk(a, ev, ""))
		}
		// genuinely signed payloads of every contribution event (speaker binding, cross-round replay)
		for _, ev := range fsmEvents {
			if strings.Contains(ev, "confirm") || strings.Contains(ev, "partial_sign") || strings.Contains(ev, "decline") {
				jobs = append(jobs, mk(a, ev, ev))
			}
		}
		for _, p := range sameTypePairs {
			jobs = append(jobs, mk(a, p[1], p[0]))
		}
		// two messages of one sender on one process: the second carries the first one's (verified) signature over another payload
		for _, ev := range fsmEvents {
			if strings.Contains(ev, "confirm") || strings.Contains(ev, "partial_sign") || strings.Contains(ev, "decline") {
				j := mk(a, ev, "")
				j.Tag += " after a verified message of the same sender, re-using its signature"
				j.Params["prime"] = "1"
				jobs = append(jobs, j)
			}
		}
		// the reinitialisation message carrying one inner message of each contribution event
		for _, ev := range fsmEvents {
			if strings.Contains(ev, "confirm") || strings.Contains(ev, "partial_sign") || strings.Contains(ev, "decline") {
				j := mk(a, "reinit_dkg", "")
				j.Tag += " inner=" + ev
				j.Case += " inner=" + ev
				j.Params["inner"] = ev
				jobs = append(jobs, j)
			}
		}

	}
	return jobs
}

func nodeCommon(cr *CheckRun) []string {
	saved := cr.owner
	cr.owner = func(string) bool { return false } // the FSM graph is only used to obtain reachable states here
	g := exploreFSM(cr, 2, false)
	cr.owner = saved
	cr.graph = g
	reps := representatives(cr, g)
	cr.bounds["round_states"] = fmt.Sprintf("%d abstract round states (n=2; quick: one for each of 8 key FSM states (await/cancelled states of each machine), thorough: all %d of the n=2 fixpoint), each with symbolic stored data", len(reps), len(g.States))
	cr.bounds["message"] = "event: every public event + signature_reconstructed + signature_reconstruction_failed + unknown; payload: the request type of the event (and of every same-typed other event) with all numeric/byte/time fields symbolic, batch and message ids chosen among {current, other, empty} constants (unbounded symbolic strings are covered at FSM level), no baked ranges; sender: each participant, a stranger, empty; signature: arbitrary bytes or genuine; round id: this round, another live round, unseen"
	cr.bounds["outside"] = "n > 2 at node level (FSM-level checks cover n <= 4); payload bytes that do not decode to the request type (C18 covers arbitrary decoded values); operator flag SkipCommKeysVerification=true"
	cr.assume = append(cr.assume,
		"ed25519.Verify is an uninterpreted predicate over (key, message, signature) with Verify(pub(sk), m, Sign(sk, m)); concrete calls are evaluated natively",
		"LevelDB = atomic key->bytes map; encoding/json = typed structural codec; time.Now = fresh non-decreasing instants")
	cr.trusted = append(cr.trusted, "gosx SSA->SMT executor", "z3 4.8.12", "stubs: leveldb, ed25519, json, time, uuid (engine/intrin_*.go)")
	return reps
}

func runNodeMessage(cr *CheckRun) {
	reps := nodeCommon(cr)
	jobs := nodeMessageJobs(cr, reps)
	res := cr.Pool.Run(jobs)
	cr.absorb(jobs, res)
	acc := 0
	for i, jr := range res {
		for _, p := range jr.Paths {
			for _, r := range p.Records {
				if r.Key == "accepted" {
					acc++
					if len(cr.samples) < 5 {
						cr.samples = append(cr.samples, map[string]interface{}{"accepted_message": r.Vals, "round_state": jobs[i].Params["abs"]})
					}
				}
			}
		}
	}
	cr.extra["accepted_paths"] = acc
	cr.states = len(reps)
	cr.trans = cr.Pool.Paths
}

func init() {
	checkDefs["C09"] = &checkDef{level: "other", pkgs: []string{nodePkg}, run: func(cr *CheckRun) {
		cr.owner = func(l string) bool {
			return hasPrefixAny(l, "unverified-noop", "init-on-live-round-noop", "skipflag-restored")
		}
		runNodeMessage(cr)
		cr.explanation = "BaseNodeService.ProcessMessage (real fsmservice, repositories, LevelDBState, FSM stack) executed from SSA on one symbolic board message against a store holding the round in each representative reachable state; obligation: not (registered sender and Verify(PubKeys[sender], Data, Signature)) => error and byte-identical store and board (all rounds, operation pool, tombstones, signatures)."
	}}
	checkDefs["C18"] = &checkDef{level: "other", pkgs: []string{nodePkg, reqPkg, typesPkg, airPkg}, run: func(cr *CheckRun) {
		cr.owner = func(l string) bool { return hasPrefixAny(l, "rejected-durable-noop", "nopanic") }
		cr.groupKey = func(v Violation) string {
			if strings.HasPrefix(v.Label, "rejected-durable-noop") {
				f := strings.Fields(v.Case)
				if len(f) > 0 {
					return v.Label + " @ " + f[0] // per round state; the event is irrelevant for the grouping
				}
			}
			return v.Label + " @ " + v.Case
		}
		runNodeMessage(cr)
		// expansion of signing tasks with symbolic ranges (the node-level jobs above use no baked ranges)
		var tj []Job
		maxTasks := 1
		if cr.Tier == "thorough" {
			maxTasks = 2
		}
		for nt := 1; nt <= maxTasks; nt++ {
			tj = append(tj, Job{Pkg: reqPkg, Fn: "VF_C18_Tasks", Opts: defaultOpts(), Tag: fmt.Sprintf("tasks=%d", nt), Case: "TasksToMessages",
				Params: map[string]string{"ntasks": fmt.Sprint(nt)}})
		}
		tj = append(tj, Job{Pkg: typesPkg, Fn: "VF_C18_OperationHelpers", Opts: defaultOpts(), Tag: "arbitrary operation", Case: "Operation.Filename"})
		// the airgapped machine: structure-aware mutants of the genuine operation of every step, fed in the state the
		// ceremony has reached, followed by the genuine operations
		airKinds := []int{5, 4, 5, 6, 3, 5, 1}
		for st, name := range []string{"commits", "deals", "responses", "masterkey", "signing", "reinit", "unknown-type"} {
			for k := 0; k < airKinds[st]; k++ {
				// kinds whose payload is an opaque byte string decoded into a deep structure (every shape of the decoded value is
				// a path, and every path re-executes the ceremony prefix): thorough tier only
				if junkKind := (st == 2 && k == 4) || (st == 3 && k == 5) || (st == 4 && k == 0) || (st == 5 && (k == 1 || k == 4)) || st == 6; junkKind && cr.Tier != "thorough" {
					continue
				}
				tj = append(tj, Job{Pkg: airPkg, Fn: "VF_Air_Arbitrary", Opts: defaultOpts(), Tag: fmt.Sprintf("airgapped mutant operation at step %s, kind %d", name, k), Case: "airgapped:" + name,
					Params: map[string]string{"step": fmt.Sprint(st), "stepname": name, "kind": fmt.Sprint(k), "arb_len": "1", "tag": fmt.Sprintf("c18air%d_%d", st, k)}})
			}
			if st < 4 {
				tj = append(tj, Job{Pkg: airPkg, Fn: "VF_Air_Arbitrary", Opts: defaultOpts(), Tag: fmt.Sprintf("airgapped mutant operation at step %s for a round the machine never saw", name), Case: "airgapped:" + name,
					Params: map[string]string{"step": fmt.Sprint(st), "stepname": name, "kind": "2", "otherround": "1", "arb_len": "1", "tag": fmt.Sprintf("c18air%d_o", st)}})
			}
		}
		tr := cr.Pool.Run(tj)
		cr.absorb(tj, tr)
		cr.bounds["airgapped_payload_lists"] = "null entries inside airgapped payload lists are NOT explored (an attempt made the solver run away and was withdrawn, DESIGN 9.8); null entries in the opening proposal are"
		cr.bounds["signing_tasks"] = "1 task (thorough: 1..2), each explicit (payload 0..1 bytes) or a baked range with symbolic int bounds: any range starting outside the list, ranges of length <= 2 starting in the first 64 or last 2 positions"
		cr.explanation = "No Go run-time panic on any feasible path of ProcessMessage for any event, any decoded request value, any sender, in each representative reachable round state (panics are found by the executor as feasible panic paths and replayed natively); a rejected message leaves every durable blob except the offset byte-identical."
	}}
	checkDefs["C10"] = &checkDef{level: "other", pkgs: []string{nodePkg}, run: func(cr *CheckRun) {
		cr.owner = func(l string) bool {
			return hasPrefixAny(l, "sender-is-participant", "bound-to-round-and-event", "reinit-leaves-live-rounds-untouched")
		}
		runNodeMessage(cr)
		cr.explanation = "Same harness as C09 with sender and claimed participant independent and genuinely signed payloads: (1) an accepted contribution naming participant P must be sent by P; (2) a genuinely signed payload re-posted under another event name or round id must have no effect; (3) the reinitialisation message, which is processed without signature verification, whatever round id its payload names and whatever inner message it carries (one inner message of every contribution event, addressed to a live round or to the new one, arbitrary signature), leaves every existing round's dump and signature store byte-identical."
	}}
}

func init() {
	checkDefs["C15"] = &checkDef{level: "other", pkgs: []string{nodePkg}, run: func(cr *CheckRun) {
		opts := defaultOpts()
		opts.Witness = true
		maxpool := 2
		var jobs []Job
		for np := 0; np <= maxpool; np++ {
			jobs = append(jobs, Job{Pkg: nodePkg, Fn: "VF_C15_Submit", Opts: opts, Tag: fmt.Sprintf("pool=%d", np), Case: "submit",
				Params: map[string]string{"npool": fmt.Sprint(np), "tag": fmt.Sprintf("c15_%d", np)}})
		}
		jobs = append(jobs, Job{Pkg: nodePkg, Fn: "VF_C15_RoundTrip", Opts: opts, Tag: "roundtrip", Case: "roundtrip", Params: map[string]string{"tag": "c15rt"}})
		res := cr.Pool.Run(jobs)
		cr.absorb(jobs, res)
		for i, jr := range res {
			for _, p := range jr.Paths {
				if p.Witness != nil && len(cr.samples) < 4 && len(p.Decisions) > 3 {
					cr.samples = append(cr.samples, map[string]interface{}{"harness": jobs[i].Fn, "params": jobs[i].Params, "submitted": trimModel(p.Witness, "sub.")})
				}
			}
		}
		cr.explanation = "ProcessOperation/executeOperation/Operation.Equal/NewOperation and the real operation repository executed from SSA: pool of 0..2 operations issued through NewOperation (symbolic payload/type), one submitted result with every field an independent symbolic value; obligations: a send requires a pending operation equal in ID, type and payload; the sent messages are the submitted ones re-attributed to and signed by the node; the operation is retired once, a second submission fails before any send, a tombstoned id never becomes pending again; Operation JSON round trip into Operation and into the API form."
		cr.bounds["pool"] = "0..2 pending operations, 0..2 result messages, 1-byte payloads (content symbolic), ids/types/events unbounded symbolic strings"
		cr.bounds["outside"] = "results of type operation_processed_successfully (reinit hand-over, covered by C20), HTTP binding/validation and the reflection-based form->DTO mapper"
		cr.assume = append(cr.assume, "md5/hex/base64 injective (operation ids do not collide)", "ed25519 contract: Verify(pub(sk), m, Sign(sk,m))", "LevelDB = atomic map; encoding/json = typed structural codec")
		cr.trusted = append(cr.trusted, "gosx SSA->SMT executor", "z3 4.8.12")
	}}
	checkDefs["C08"] = &checkDef{level: "other", pkgs: []string{nodePkg}, run: func(cr *CheckRun) {
		cr.owner = func(l string) bool { return hasPrefixAny(l, "round-isolated", "clock-free", "maporder-free", "interleaved-round-changes-nothing") }
		reps := nodeCommon(cr)
		jobs := nodeMessageJobs(cr, reps)
		// determinism: the same message handled by two nodes with independent clocks / map orders
		opts := defaultOpts()
		opts.MaxPaths = 40000
		pmode := "reverse"
		for _, a := range reps {
			if strings.HasPrefix(a, "__idle") {
				continue
			}
			for _, ev := range fsmEvents {
				jobs = append(jobs, Job{Pkg: nodePkg, Fn: "VF_C08_Interleave", Opts: opts, Tag: "interleave state=" + a + " event=" + ev,
					Case:   "interleave state=" + absState(a) + " event=" + ev,
					Params: map[string]string{"abs": a, "event": ev, "norange": "1", "maxn": "2", "tag": fmt.Sprintf("c08_%d", len(jobs))}})
				for _, perm := range []string{"", "1"} {
					tag := "clock"
					if perm == "1" {
						tag = "maporder"
					}
					jobs = append(jobs, Job{Pkg: nodePkg, Fn: "VF_C08_Determinism", Opts: opts, Tag: tag + " state=" + a + " event=" + ev,
						Case:   tag + " state=" + absState(a) + " event=" + ev,
						Params: map[string]string{"abs": a, "event": ev, "permute": perm, "permute_mode": pmode, "norange": "1", "maxn": "2", "tag": fmt.Sprintf("c08_%d", len(jobs))}})
				}
			}
		}
		// the interleaved node has, in the same process, just handled the other round's message with the same id, event,
		// payload and signature: for every accepted edge out of the representative states
		isRep := map[string]bool{}
		for _, a := range reps {
			isRep[a] = true
		}
		priorDone := map[string]bool{}
		for _, e := range cr.graph.Edges {
			if !e.Accepted || !isRep[e.From] || priorDone[e.From+"|"+e.Event] {
				continue
			}
			priorDone[e.From+"|"+e.Event] = true
			jobs = append(jobs, Job{Pkg: nodePkg, Fn: "VF_C08_Interleave", Opts: opts, Tag: "interleave+same-id state=" + e.From + " event=" + e.Event,
				Case:   "interleave+same-id state=" + absState(e.From) + " event=" + e.Event,
				Params: map[string]string{"abs": e.From, "event": e.Event, "prior": "1", "norange": "1", "maxn": "2", "tag": fmt.Sprintf("c08_%d", len(jobs))}})
		}
		// every phase change of the n=2 graph (an accepted event that moves the round to another FSM state: phase completions,
		// which build the per-participant lists handed to operations, and cancellations), from EVERY abstract state it occurs in
		done := map[string]bool{}
		for _, a := range reps {
			for _, ev := range fsmEvents {
				done[a+"|"+ev] = true
			}
		}
		phase := 0
		for _, e := range cr.graph.Edges {
			if !e.Accepted || strings.HasPrefix(e.From, "__idle") || absState(e.From) == absState(e.To) || done[e.From+"|"+e.Event] {
				continue
			}
			done[e.From+"|"+e.Event] = true
			phase++
			jobs = append(jobs, Job{Pkg: nodePkg, Fn: "VF_C08_Interleave", Opts: opts, Tag: "interleave state=" + e.From + " event=" + e.Event,
				Case:   "interleave state=" + absState(e.From) + " event=" + e.Event,
				Params: map[string]string{"abs": e.From, "event": e.Event, "norange": "1", "maxn": "2", "tag": fmt.Sprintf("c08_%d", len(jobs))}})
			for _, perm := range []string{"", "1"} {
				tag := "clock"
				if perm == "1" {
					tag = "maporder"
				}
				jobs = append(jobs, Job{Pkg: nodePkg, Fn: "VF_C08_Determinism", Opts: opts, Tag: tag + " state=" + e.From + " event=" + e.Event,
					Case:   tag + " state=" + absState(e.From) + " event=" + e.Event,
					Params: map[string]string{"abs": e.From, "event": e.Event, "permute": perm, "permute_mode": pmode, "norange": "1", "maxn": "2", "tag": fmt.Sprintf("c08_%d", len(jobs))}})
			}
		}
		cr.bounds["phase_changes"] = fmt.Sprintf("%d (state, event) pairs of the n=2 graph whose accepted edge changes the FSM state, each from the abstract state it occurs in", phase)
		res := cr.Pool.Run(jobs)
		cr.absorb(jobs, res)
		cr.states = len(reps)
		cr.trans = cr.Pool.Paths
		cr.bounds["map_iteration_order"] = "canonical order vs. the reversed order of every Go map range executed inside ProcessMessage (all maps reversed at once; for n=2 quorums these are the only two orders of each map; combinations that reverse only some maps are outside)"
		cr.samples = append(cr.samples, map[string]interface{}{"determinism_jobs": len(jobs), "representative_states": reps})
		cr.explanation = "Round isolation: in every path of the one-message harness a message carrying one round id leaves the dump and the signature store of every other round byte-identical. Clock freedom: the same genuinely signed message handled by two nodes over identical stores with independent time.Now streams yields the same public projection (phase, statuses, contributions, threshold, polynomial), the same pending operations (id, type, payload), signatures and board output. Map-order freedom: the second node handles the message with every Go map range iterated in reverse order. Interleaving: a node whose shared stores (operation pool, answered-operation tombstones, dump map, signature store) hold what another round left behind, with arbitrary operation payloads and types built by the real NewOperation/PutOperation/DeleteOperation, handles the message exactly like a node that has seen only this round, and leaves the other round's leftovers untouched; in the +same-id jobs that node has additionally, in the same process, just handled the other round's message with the same message id, event, payload and signature (nothing kept in process memory may matter) (md5/hex/base64 modelled as injective functions: hash collisions are outside)."
	}}
}

func init() {
	checkDefs["C13"] = &checkDef{level: "fault_enumeration", pkgs: []string{nodePkg}, run: func(cr *CheckRun) {
		reps := nodeCommon(cr)
		opts := defaultOpts()
		var jobs []Job
		for _, a := range reps {
			if strings.HasPrefix(a, "__idle") {
				continue
			}
			for _, ev := range fsmEvents {
				jobs = append(jobs, Job{Pkg: nodePkg, Fn: "VF_C13_Crash", Opts: opts, Tag: "state=" + a + " event=" + ev,
					Case:   "state=" + absState(a) + " event=" + ev,
					Params: map[string]string{"abs": a, "event": ev, "norange": "1", "maxn": "2", "tag": fmt.Sprintf("c13_%d", len(jobs))}})
			}
		}
		jobs = append(jobs, Job{Pkg: nodePkg, Fn: "VF_C13_Api", Opts: opts, Tag: "api ProcessOperation", Case: "api=ProcessOperation",
			Params: map[string]string{"tag": fmt.Sprintf("c13_%d", len(jobs))}})
		res := cr.Pool.Run(jobs)
		cr.absorb(jobs, res)
		points := map[string]int{}
		for i, jr := range res {
			for _, p := range jr.Paths {
				for _, r := range p.Records {
					if r.Key == "crash" && len(r.Vals) == 2 {
						points[r.Vals[0]+"/"+r.Vals[1]]++
						if len(cr.samples) < 6 && r.Vals[0] != "0" {
							cr.samples = append(cr.samples, map[string]interface{}{"round_state": jobs[i].Params["abs"], "message_event": jobs[i].Params["event"], "crash_after_effect": r.Vals[0], "effects_in_crash_free_run": r.Vals[1]})
						}
					}
				}
			}
		}
		cr.extra["crash_points_by_k_over_effects"] = points
		cr.groupKey = func(v Violation) string { return v.Label }
		cr.explanation = "Real Poll/ProcessMessage/processMessage and the real repositories and services executed from SSA; one genuinely signed board message with a symbolic payload per (round state, event); the process is killed after the k-th durable effect (state write, offset write, board send) for every k, restarted on a byte-for-byte copy of the state directory as it was at that instant (all services constructed afresh, LevelDB reopened) and polled again; the public state (round projection, pending operations, signatures, offset) must equal that of the crash-free run. k=0 is a clean stop/start. API side (VF_C13_Api): the process dies after the k-th durable effect of ProcessOperation answering a pending operation with 1..2 result messages, or at any time after the request returned (before any further board message is handled); after the restart an unanswered operation is still offered, a retired one has its answer on the board, and a request that returned stays effective."
		cr.bounds["crashes"] = "one crash per run, every position between the durable effects of handling one message; one message per run"
		cr.bounds["outside"] = "torn writes inside LevelDB, two crashes, API requests other than ProcessOperation with result messages (ApproveParticipation, reinit finish, reset), n > 2"
	}}
}

func init() {
	checkDefs["C14"] = &checkDef{level: "model_checking", pkgs: []string{nodePkg}, run: func(cr *CheckRun) {
		saved := cr.owner
		cr.owner = func(string) bool { return false }
		g := exploreFSM(cr, 2, false)
		cr.owner = saved
		// message kinds that create work for the operator: the last missing contribution of a phase, a signing proposal
		want := map[string]string{
			"state_sig_proposal_await_participants_confirmations": "event_sig_proposal_confirm_by_participant",
			"state_dkg_commits_await_confirmations":               "event_dkg_commit_confirm_received",
			"stage_signing_idle":                                  "event_signing_start",
		}
		if cr.Tier == "thorough" {
			want["state_dkg_deals_await_confirmations"] = "event_dkg_deal_confirm_received"
			want["state_dkg_responses_await_confirmations"] = "event_dkg_response_confirm_received"
			want["state_dkg_master_key_await_confirmations"] = "event_dkg_master_key_confirm_received"
			want["state_signing_await_partial_signs"] = "event_signing_partial_sign_error_received"
		}
		best := map[string]string{}
		score := func(a string) int { // prefer states where only one contribution is missing
			f := strings.Split(a, ";")
			s := 0
			for _, part := range f[3:6] {
				for _, c := range part {
					if c == '1' || c == 'b' || c == 'e' || c == 'h' || c == 'k' {
						s++
					}
				}
			}
			return s
		}
		var all []string
		for a := range g.States {
			all = append(all, a)
		}
		sort.Strings(all)
		for _, a := range all {
			n := absState(a)
			if _, ok := want[n]; !ok {
				continue
			}
			if b, ok := best[n]; !ok || score(a) > score(b) {
				best[n] = a
			}
		}
		pre := "2"
		if cr.Tier == "thorough" {
			pre = "3"
		}
		opts := defaultOpts()
		opts.MaxPaths = 60000
		var jobs []Job
		for _, n := range sortedKeys(best) {
			jobs = append(jobs, Job{Pkg: nodePkg, Fn: "VF_C14_Pair", Opts: opts, Tag: "state=" + best[n] + " message=" + want[n] + " api=ProcessOperation",
				Case:   "message=" + want[n] + " api=ProcessOperation",
				Params: map[string]string{"abs": best[n], "event": want[n], "norange": "1", "maxn": "2", "preemptions": pre, "tag": fmt.Sprintf("c14_%d", len(jobs))}})
			// the operator answers an operation of ANOTHER round while the poller handles this round's message
			jobs = append(jobs, Job{Pkg: nodePkg, Fn: "VF_C14_Pair", Opts: opts, Tag: "state=" + best[n] + " message=" + want[n] + " api=ProcessOperation(other round)",
				Case:   "message=" + want[n] + " api=ProcessOperation(other round)",
				Params: map[string]string{"abs": best[n], "event": want[n], "apiround": "other", "norange": "1", "maxn": "2", "preemptions": pre, "tag": fmt.Sprintf("c14_%d", len(jobs))}})
			// the operator resets the state while the poller handles the message (the three message kinds of the quick tier)
			if want[n] == "event_sig_proposal_confirm_by_participant" || want[n] == "event_dkg_commit_confirm_received" || want[n] == "event_signing_start" {
				jobs = append(jobs, Job{Pkg: nodePkg, Fn: "VF_C14_Pair", Opts: opts, Tag: "state=" + best[n] + " message=" + want[n] + " api=ResetFSMState",
					Case:   "message=" + want[n] + " api=ResetFSMState",
					Params: map[string]string{"abs": best[n], "event": want[n], "api": "reset", "norange": "1", "maxn": "2", "preemptions": pre, "tag": fmt.Sprintf("c14_%d", len(jobs))}})
			}
			// the operator approves the invitation to another round (ApproveParticipation reads the pool before it answers)
			if want[n] != "event_signing_start" || cr.Tier == "thorough" {
				jobs = append(jobs, Job{Pkg: nodePkg, Fn: "VF_C14_Pair", Opts: opts, Tag: "state=" + best[n] + " message=" + want[n] + " api=ApproveParticipation(other round)",
					Case:   "message=" + want[n] + " api=ApproveParticipation(other round)",
					Params: map[string]string{"abs": best[n], "event": want[n], "apiround": "other", "api": "approve", "norange": "1", "maxn": "2", "preemptions": pre, "tag": fmt.Sprintf("c14_%d", len(jobs))}})
			}
		}
		res := cr.Pool.Run(jobs)
		cr.absorb(jobs, res)
		sched := 0
		for _, jr := range res {
			sched += len(jr.Paths)
		}
		cr.states = len(jobs)
		cr.trans = sched
		cr.samples = append(cr.samples, map[string]interface{}{"pairs": best, "schedules_times_data_paths": sched})
		cr.groupKey = func(v Violation) string { return v.Label + " @ " + v.Case }
		cr.explanation = "Two logical threads in the executor: the poller side (real ProcessMessage + SaveOffset for one genuinely signed message with symbolic payload) and the API side (real ProcessOperation submitting the result of a pending operation); context switches at every state-store call and board send, all schedules within the pre-emption bound, sync.Mutex with real mutual exclusion between the threads; the final public state must equal one of the two serial orders; no pending operation lost, no retired operation back."
		cr.bounds["preemptions"] = pre + " (every schedule within the bound, including which side starts)"
		cr.bounds["pairs"] = "API request ProcessOperation (answering an operation of this round, or of another round of the node) or ApproveParticipation (invitation to another round) or ResetFSMState (three message kinds) x board message that completes a phase / opens a batch (quick: 3 message kinds, thorough: 7)"
		cr.bounds["outside"] = "reinit finish as the API side; races below the granularity of a state-store call (e.g. Reset swapping the DB handle under SaveOffset); more than one message per tick; n > 2"
		cr.assume = append(cr.assume, "a context switch can only happen at a state-store call or a board send; sync.Mutex gives mutual exclusion; everything else as in C09")
		cr.trusted = append(cr.trusted, "gosx SSA->SMT executor with logical threads (engine/sched.go)", "z3 4.8.12")
	}}
}

// signing at node level: C01, C03, C07 share VF_NodeSign
func signJobs(cr *CheckRun) []Job {
	opts := defaultOpts()
	var jobs []Job
	symids := ""
	add := func(t, ntasks, o1, o2 int) {
		tag := fmt.Sprintf("n=3 t=%d tasks=%d order=%d order2=%d", t, ntasks, o1, o2)
		if symids != "" {
			tag += " symbolic-ids"
		}
		jobs = append(jobs, Job{Pkg: nodePkg, Fn: "VF_NodeSign", Opts: opts,
			Tag:  tag,
			Case: fmt.Sprintf("t=%d", t),
			Params: map[string]string{"t": fmt.Sprint(t), "ntasks": fmt.Sprint(ntasks), "order": fmt.Sprint(o1), "order2": fmt.Sprint(o2),
				"blob_axioms": "1", "blob_distinct": "1", "symids": symids, "tag": fmt.Sprintf("sign_%d", len(jobs))}})
	}
	if cr.Tier == "thorough" {
		for o1 := 0; o1 < 6; o1++ {
			for o2 := 0; o2 < 6; o2++ {
				add(2, 1, o1, o2)
			}
			add(3, 1, o1, 0)
			add(2, 2, o1, (o1+3)%6)
		}
	} else {
		for o1 := 0; o1 < 6; o1++ {
			add(2, 1, o1, (o1+1)%6)
		}
		add(3, 1, 0, 0)
		add(3, 1, 5, 0)
		add(2, 2, 2, 4)
	}
	// the node serves a second finished round with another polynomial and a larger threshold after the first one
	jobs = append(jobs, Job{Pkg: nodePkg, Fn: "VF_NodeSign", Opts: opts, Tag: "n=3 t=2 tasks=1 order=0 then round2 t=3", Case: "t=2 then t=3",
		Params: map[string]string{"t": "2", "ntasks": "1", "order": "0", "order2": "1", "tworounds": "1", "blob_axioms": "1", "blob_distinct": "1", "tag": fmt.Sprintf("sign_%d", len(jobs))}})
	// the second batch re-uses the message ids of the first one; the t-th answer of a batch covers only some of its messages
	for _, extra := range []string{"sameids", "omit"} {
		jobs = append(jobs, Job{Pkg: nodePkg, Fn: "VF_NodeSign", Opts: opts, Tag: "n=3 t=2 tasks=2 order=0 order2=3 " + extra, Case: "t=2 " + extra,
			Params: map[string]string{"t": "2", "ntasks": "2", "order": "0", "order2": "3", extra: "1", "blob_axioms": "1", "blob_distinct": "1", "tag": fmt.Sprintf("sign_%d", len(jobs))}})
	}
	// message identifiers as arbitrary pairwise distinct strings (1..3 bytes) listed in any order
	symids = "1"
	add(3, 2, 0, 0)
	add(2, 2, 2, 4)
	if cr.Tier == "thorough" {
		add(3, 3, 3, 0)
		add(2, 2, 5, 1)
	}
	symids = ""
	cr.bounds["signing_scenario"] = "n=3; one job continues on the same node with a second round (own polynomial, t=3) after the t=2 round; t=2 (two batches; the slow participant of batch 1 answers while batch 2 is collected) and t=3; 1..2 explicit messages per batch with 2 symbolic payload bytes, message ids concrete or (symbolic-ids jobs) (first batch) arbitrary distinct strings \"m\"+<any byte> in any listing order; arrival orders: quick 6 first-batch orders x 1 second-batch order each, thorough all 36 pairs; shares symbolic (index, value) with the validity predicate assumed for honest signers"
	cr.bounds["outside"] = "BLS12-381 arithmetic and Ethereum-verifier agreement (contract: tbls.Recover returns Sig(poly,msg) when t valid shares with distinct indices are given and t >= #commitments); Byzantine partial signatures; n > 3; baked ranges inside batches (C17 covers their payloads)"
	cr.assume = append(cr.assume,
		"kyber contracts of engine/intrin_kyber.go (tbls.Recover, point decoding, NewPubPoly); a share value verifies for at most one message under one key share",
		"md5/hex/base64 injective; structurally different JSON texts are different byte strings",
		"ed25519 contract; LevelDB = atomic map; encoding/json = typed structural codec")
	cr.trusted = append(cr.trusted, "gosx SSA->SMT executor", "z3 4.8.12", "kyber v1.6.0 contracts (DESIGN Appendix D)")
	return jobs
}

func runSign(cr *CheckRun) {
	jobs := signJobs(cr)
	res := cr.Pool.Run(jobs)
	cr.absorb(jobs, res)
	cr.samples = append(cr.samples, map[string]interface{}{"scenarios": len(jobs), "first": jobs[0].Tag})
	// translator/contract validation: the same scenario natively, with a real kyber polynomial, real shares, real Recover
	if len(cr.fails) == 0 {
		cr.validateNatively(jobs[0], nil, nil)
		for i := len(jobs) - 1; i > 0; i-- {
			if jobs[i].Params["symids"] == "" { // without a model the symbolic identifiers would all be equal
				cr.validateNatively(jobs[i], nil, nil)
				break
			}
		}
	}
}

func init() {
	checkDefs["C01"] = &checkDef{level: "other", pkgs: []string{nodePkg, airPkg}, run: func(cr *CheckRun) {
		cr.owner = func(l string) bool {
			return hasPrefixAny(l, "stored-is-recovered", "stored-entry-labels", "reconstruction-broadcast", "signer-signs-expansion", "honest-step-succeeds")
		}
		runSign(cr)
		runCeremony(cr, []Job{ceremonyJob("c01sign", 2, 2, map[string]string{"sign": "1", "noleak": "1"}, "airgapped signer after a full ceremony")}, []map[string]int{{}})
		cr.explanation = "Hot-node half of C01 at contract level: the real reconstructThresholdSignature/recoverFullSign/broadcastReconstructedSignatures/processSignature/SaveSignatures run from SSA over the kyber contract stubs; for every arrival order of partial signatures and every t-subset, each stored and broadcast signature equals the uninterpreted Sig(poly, proposed payload) with the round's polynomial and threshold - hence is independent of subset and order. Airgapped half (VF_Air_Ceremony sign=1): after a full contract-level ceremony each machine answers a two-message batch with exactly one partial signature per message, made with the share stored for that round (tbls.Sign contract: index || S(share, payload)) and labelled with the message's own id; run natively with real kyber on every run. Curve arithmetic is outside."
	}}
	checkDefs["C03"] = &checkDef{level: "other", pkgs: []string{nodePkg, airPkg}, run: func(cr *CheckRun) {
		cr.owner = func(l string) bool {
			// an honest share verifies only for the payload it was made for: handing anything else to reconstruction shows
			// as a rejected honest answer
			return hasPrefixAny(l, "stored-payload-is-proposed", "proposal-entry-payload-is-proposed", "stored-is-recovered", "honest-answer-accepted", "stored-file-is-proposed", "proposal-entry-file-is-proposed", "signer-signs-expansion", "honest-step-succeeds")
		}
		runSign(cr)
		runCeremony(cr, []Job{ceremonyJob("c03sign", 2, 2, map[string]string{"sign": "1", "noleak": "1"}, "airgapped signer after a full ceremony")}, []map[string]int{{}})
		cr.explanation = "Hot-node half of C03: the payload bytes handed to reconstruction (observable through Sig(poly, .)), the SrcPayload stored next to the signature and the payload stored at proposal time are byte-identical to the payload in the proposal on the board, for symbolic payloads. The airgapped signer (VF_Air_Ceremony sign=1, kyber contracts): the bytes handed to tbls.Sign are the proposal's payload bytes of that message id, once per message."
	}}
	checkDefs["C07"] = &checkDef{level: "model_checking", pkgs: []string{nodePkg}, run: func(cr *CheckRun) {
		cr.owner = func(l string) bool {
			return hasPrefixAny(l, "all-batches-stored", "ends-idle", "late-answer-noop", "proposal-accepted", "honest-answer-accepted", "broadcast-accepted", "incomplete-set-noop")
		}
		runSign(cr)
		cr.states = len(cr.slow)
		cr.trans = cr.Pool.Paths
		cr.explanation = "Liveness reduced to bounded reachability: in every log of the bounded family (orders of t honest answers, a slow participant answering the previous batch in the middle of the next one) the node accepts the proposal and the t answers, reconstructs, stores every message of the batch, ends in stage_signing_idle, rejects the late answer without any change and completes the next batch."
	}}
}
