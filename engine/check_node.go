package main

// Node-level checks: C09, C10, C08 (round isolation), C18 (node part) share the one-message harness VF_NodeMessage.

import (
	"fmt"
	"sort"
	"strings"
)

const nodePkg = "client/services/node"

var nodeEvents = append(append([]string{}, fsmEvents...), "signature_reconstructed", "signature_reconstruction_failed")

// same-request-type event pairs (payload produced for a -> posted as b)
var sameTypePairs = [][2]string{
	{"event_sig_proposal_confirm_by_participant", "event_sig_proposal_decline_by_participant"},
	{"event_sig_proposal_decline_by_participant", "event_sig_proposal_confirm_by_participant"},
	{"event_dkg_commit_confirm_canceled_by_error", "event_dkg_deal_confirm_canceled_by_error"},
	{"event_dkg_deal_confirm_canceled_by_error", "event_dkg_response_confirm_canceled_by_error"},
	{"event_dkg_response_confirm_canceled_by_error", "event_dkg_master_key_confirm_canceled_by_error"},
	{"event_dkg_master_key_confirm_canceled_by_error", "event_dkg_commit_confirm_canceled_by_error"},
	{"event_signing_partial_sign_error_received", "signature_reconstruction_failed"},
}

// representatives picks abstract states to drive node-level harnesses from: quick = one per state name (n=2),
// thorough = every abstract state of the n=2 graph.
func representatives(cr *CheckRun, g *fsmGraph) []string {
	var all []string
	for a := range g.States {
		all = append(all, a)
	}
	sort.Strings(all)
	if cr.Tier == "thorough" {
		return all
	}
	quick := map[string]bool{
		"state_sig_proposal_await_participants_confirmations": true, "state_sig_proposal_canceled_by_timeout": true,
		"state_dkg_commits_await_confirmations": true, "state_dkg_deals_await_canceled_by_error": true,
		"state_dkg_master_key_await_confirmations": true, "stage_signing_idle": true,
		"state_signing_await_partial_signs": true, "state_signing_partial_signs_await_cancelled_by_error": true,
	}
	seen := map[string]bool{}
	var out []string
	for _, a := range all {
		n := absState(a)
		if !seen[n] && quick[n] {
			seen[n] = true
			out = append(out, a)
		}
	}
	return out
}

func nodeMessageJobs(cr *CheckRun, reps []string) []Job {
	opts := defaultOpts()
	var jobs []Job
	mk := func(a, ev, dataEv string) Job {
		genuine := ""
		if dataEv != "" {
			genuine = "1"
		}
		tag := "state=" + a + " event=" + ev
		cs := "state=" + absState(a) + " event=" + ev
		if dataEv != "" {
			tag += " payload-of=" + dataEv
			cs += " payload-of=" + dataEv
		}
		return Job{Pkg: nodePkg, Fn: "VF_NodeMessage", Opts: opts, Tag: tag, Case: cs,
			Params: map[string]string{"abs": a, "event": ev, "data_event": dataEv, "genuine": genuine, "maxn": "2", "norange": "1", "tag": fmt.Sprintf("%s_%d", cr.ID, len(jobs))}}
	}
	for _, a := range reps {
		if strings.HasPrefix(a, "__idle") {
			continue // a round that does not exist yet: covered by the "unseen" round choice
		}
		for _, ev := range nodeEvents {
			jobs = append(jobs, mk(a, ev, ""))
		}
		// genuinely signed payloads of every contribution event (speaker binding, cross-round replay)
		for _, ev := range fsmEvents {
			if strings.Contains(ev, "confirm") || strings.Contains(ev, "partial_sign") || strings.Contains(ev, "decline") {
				jobs = append(jobs, mk(a, ev, ev))
			}
		}
		for _, p := range sameTypePairs {
			jobs = append(jobs, mk(a, p[1], p[0]))
		}

	}
	return jobs
}

func nodeCommon(cr *CheckRun) []string {
	saved := cr.owner
	cr.owner = func(string) bool { return false } // the FSM graph is only used to obtain reachable states here
	g := exploreFSM(cr, 2, false)
	cr.owner = saved
	reps := representatives(cr, g)
	cr.bounds["round_states"] = fmt.Sprintf("%d abstract round states (n=2; quick: one for each of 8 key FSM states (await/cancelled states of each machine), thorough: all %d of the n=2 fixpoint), each with symbolic stored data", len(reps), len(g.States))
	cr.bounds["message"] = "event: every public event + signature_reconstructed + signature_reconstruction_failed + unknown; payload: the request type of the event (and of every same-typed other event) with all numeric/byte/time fields symbolic, batch and message ids chosen among {current, other, empty} constants (unbounded symbolic strings are covered at FSM level), no baked ranges; sender: each participant, a stranger, empty; signature: arbitrary bytes or genuine; round id: this round, another live round, unseen"
	cr.bounds["outside"] = "n > 2 at node level (FSM-level checks cover n <= 4); payload bytes that do not decode to the request type (C18 covers arbitrary decoded values); operator flag SkipCommKeysVerification=true"
	cr.assume = append(cr.assume,
		"ed25519.Verify is an uninterpreted predicate over (key, message, signature) with Verify(pub(sk), m, Sign(sk, m)); concrete calls are evaluated natively",
		"LevelDB = atomic key->bytes map; encoding/json = typed structural codec; time.Now = fresh non-decreasing instants")
	cr.trusted = append(cr.trusted, "gosx SSA->SMT executor", "z3 4.8.12", "stubs: leveldb, ed25519, json, time, uuid (engine/intrin_*.go)")
	return reps
}

func runNodeMessage(cr *CheckRun) {
	reps := nodeCommon(cr)
	jobs := nodeMessageJobs(cr, reps)
	res := cr.Pool.Run(jobs)
	cr.absorb(jobs, res)
	acc := 0
	for i, jr := range res {
		for _, p := range jr.Paths {
			for _, r := range p.Records {
				if r.Key == "accepted" {
					acc++
					if len(cr.samples) < 5 {
						cr.samples = append(cr.samples, map[string]interface{}{"accepted_message": r.Vals, "round_state": jobs[i].Params["abs"]})
					}
				}
			}
		}
	}
	cr.extra["accepted_paths"] = acc
	cr.states = len(reps)
	cr.trans = cr.Pool.Paths
}

func init() {
	checkDefs["C09"] = &checkDef{level: "other", pkgs: []string{nodePkg}, run: func(cr *CheckRun) {
		cr.owner = func(l string) bool {
			return hasPrefixAny(l, "unverified-noop", "init-on-live-round-noop", "skipflag-restored")
		}
		runNodeMessage(cr)
		cr.explanation = "BaseNodeService.ProcessMessage (real fsmservice, repositories, LevelDBState, FSM stack) executed from SSA on one symbolic board message against a store holding the round in each representative reachable state; obligation: not (registered sender and Verify(PubKeys[sender], Data, Signature)) => error and byte-identical store and board (all rounds, operation pool, tombstones, signatures)."
	}}
	checkDefs["C18"] = &checkDef{level: "other", pkgs: []string{nodePkg}, run: func(cr *CheckRun) {
		cr.owner = func(l string) bool { return hasPrefixAny(l, "rejected-durable-noop", "nopanic") }
		cr.groupKey = func(v Violation) string {
			if strings.HasPrefix(v.Label, "rejected-durable-noop") {
				f := strings.Fields(v.Case)
				if len(f) > 0 {
					return v.Label + " @ " + f[0] // per round state; the event is irrelevant for the grouping
				}
			}
			return v.Label + " @ " + v.Case
		}
		runNodeMessage(cr)
		cr.explanation = "No Go run-time panic on any feasible path of ProcessMessage for any event, any decoded request value, any sender, in each representative reachable round state (panics are found by the executor as feasible panic paths and replayed natively); a rejected message leaves every durable blob except the offset byte-identical."
	}}
	checkDefs["C10"] = &checkDef{level: "other", pkgs: []string{nodePkg}, run: func(cr *CheckRun) {
		cr.owner = func(l string) bool { return hasPrefixAny(l, "sender-is-participant", "bound-to-round-and-event") }
		runNodeMessage(cr)
		cr.explanation = "Same harness as C09 with sender and claimed participant independent and genuinely signed payloads: (1) an accepted contribution naming participant P must be sent by P; (2) a genuinely signed payload re-posted under another event name or round id must have no effect."
	}}
}
