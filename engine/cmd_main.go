package main

import (
	"encoding/json"
	"flag"
	"fmt"
	"os"
	"path/filepath"
	"strings"
)

var (
	verifDir = envOr("VERIF_DIR", "/verif")
	repoDir  = envOr("REPO_DIR", "/repo")
)

func envOr(k, d string) string {
	if v := os.Getenv(k); v != "" {
		return v
	}
	return d
}

// buildOverlay maps harness files and the symbolic vf shim into /repo (virtually).
func buildOverlay() (map[string][]byte, []string, error) {
	ov := map[string][]byte{}
	pkgs := map[string]bool{}
	root := filepath.Join(verifDir, "harness")
	err := filepath.Walk(root, func(p string, info os.FileInfo, err error) error {
		if err != nil || info.IsDir() || !strings.HasSuffix(p, ".go") {
			return err
		}
		rel, _ := filepath.Rel(root, p)
		data, err := os.ReadFile(p)
		if err != nil {
			return err
		}
		ov[filepath.Join(repoDir, rel)] = data
		pkgs["./"+filepath.Dir(rel)] = true
		return nil
	})
	if err != nil {
		return nil, nil, err
	}
	shim, err := os.ReadFile(filepath.Join(verifDir, "vf", "sym", "vf.go"))
	if err != nil {
		return nil, nil, err
	}
	ov[filepath.Join(repoDir, "internal", "vf", "vf.go")] = shim
	var pats []string
	for p := range pkgs {
		pats = append(pats, p)
	}
	return ov, pats, nil
}

type multiFlag []string

func (m *multiFlag) String() string     { return strings.Join(*m, ",") }
func (m *multiFlag) Set(s string) error { *m = append(*m, s); return nil }

func main() {
	if len(os.Args) < 2 {
		fmt.Fprintln(os.Stderr, "usage: gosx run|check ...")
		os.Exit(2)
	}
	switch os.Args[1] {
	case "run":
		cmdRun(os.Args[2:])
	case "check":
		os.Exit(cmdCheck(os.Args[2:]))
	default:
		fmt.Fprintln(os.Stderr, "unknown command", os.Args[1])
		os.Exit(2)
	}
}

func cmdRun(args []string) {
	fs := flag.NewFlagSet("run", flag.ExitOnError)
	pkg := fs.String("pkg", "", "package dir relative to repo (e.g. fsm/state_machines)")
	fnName := fs.String("fn", "", "harness function name")
	out := fs.String("json", "", "write JSON result here")
	solver := fs.String("solver", "z3", "z3|z3-new|cvc5")
	trace := fs.Bool("trace", false, "trace blocks")
	permute := fs.Bool("permute", false, "all map iteration orders")
	witness := fs.Bool("witness", false, "model per completed path")
	smtlog := fs.String("smtlog", "", "log solver input")
	maxpaths := fs.Int("maxpaths", 0, "path budget")
	maxsteps := fs.Int("maxsteps", 0, "step budget per path")
	var params multiFlag
	fs.Var(&params, "param", "k=v")
	fs.Parse(args)
	ov, _, err := buildOverlay()
	if err != nil {
		fmt.Fprintln(os.Stderr, err)
		os.Exit(2)
	}
	P, err := LoadProgram(repoDir, ov, []string{"./" + *pkg})
	if err != nil {
		fmt.Fprintln(os.Stderr, "load:", err)
		os.Exit(2)
	}
	fn := P.FindFunc(modPath+"/"+*pkg, *fnName)
	if fn == nil {
		fmt.Fprintln(os.Stderr, "no such function", *fnName)
		os.Exit(2)
	}
	pm := map[string]string{}
	for _, p := range params {
		k, v, _ := strings.Cut(p, "=")
		pm[k] = v
	}
	opts := defaultOpts()
	opts.Trace = *trace
	opts.Permute = *permute
	opts.Witness = *witness
	if *maxpaths > 0 {
		opts.MaxPaths = *maxpaths
	}
	if *maxsteps > 0 {
		opts.MaxSteps = *maxsteps
	}
	sol, err := NewSolver(*solver, opts.TimeoutMs)
	if err != nil {
		fmt.Fprintln(os.Stderr, err)
		os.Exit(2)
	}
	if *smtlog != "" {
		f, _ := os.Create(*smtlog)
		sol.log = f
		defer f.Close()
	}
	defer sol.Close()
	jr := RunHarness(P, sol, fn, pm, opts)
	summarize(jr, os.Stdout)
	if *out != "" {
		b, _ := json.MarshalIndent(jr, "", " ")
		os.WriteFile(*out, b, 0o644)
	}
}

func summarize(jr *JobResult, w *os.File) {
	st := map[string]int{}
	verd := map[string]int{}
	for _, p := range jr.Paths {
		st[p.Status]++
		for _, a := range p.Asserts {
			verd[a.Label+":"+a.Verdict]++
		}
	}
	fmt.Fprintf(w, "harness %s: %d paths %v, %d queries, solver %.2fs, wall %.2fs, steps %d\n", jr.Harness, len(jr.Paths), st, jr.Queries, jr.SolverSec, jr.WallSec, jr.Steps)
	for _, k := range sortedKeys(verd) {
		fmt.Fprintf(w, "  %-60s %d\n", k, verd[k])
	}
	shown := 0
	for _, p := range jr.Paths {
		if p.Status != "ok" && p.Status != "infeasible" && p.Status != "stopped" && shown < 8 {
			fmt.Fprintf(w, "  path %s: %s %s\n", fmtDecisions(p.Decisions), p.Status, p.Why)
			shown++
		}
		for _, n := range p.Notes {
			if shown < 12 {
				fmt.Fprintf(w, "  note: %s\n", n)
				shown++
			}
		}
	}
}
