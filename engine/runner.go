package main

// Path exploration by re-execution with decision vectors.

import (
	"fmt"
	"os"
	"sort"
	"strings"
	"time"

	"golang.org/x/tools/go/ssa"
)

type AssertResult struct {
	Label   string              `json:"label"`
	Verdict string              `json:"verdict"` // proved | failed | unknown
	Model   map[string]ModelVal `json:"model,omitempty"`
	Choices map[string]int      `json:"choices,omitempty"`
	Detail  string              `json:"detail,omitempty"`
}

type Record struct {
	Key  string   `json:"key"`
	Vals []string `json:"vals"`
}

type PathResult struct {
	Decisions    []int               `json:"decisions"`
	Status       string              `json:"status"` // ok | infeasible | inconclusive | unsupported | panic | stopped
	Why          string              `json:"why,omitempty"`
	Asserts      []AssertResult      `json:"asserts,omitempty"`
	Records      []Record            `json:"records,omitempty"`
	Notes        []string            `json:"notes,omitempty"`
	Steps        int                 `json:"steps"`
	Inconclusive bool                `json:"inconclusive,omitempty"`
	Choices      map[string]int      `json:"choices,omitempty"`
	PanicModel   map[string]ModelVal `json:"panic_model,omitempty"`
	Witness      map[string]ModelVal `json:"witness,omitempty"`
	WallMs       int64               `json:"wall_ms"`
}

func (r *PathResult) note(s string) {
	for _, n := range r.Notes {
		if n == s {
			return
		}
	}
	r.Notes = append(r.Notes, s)
}

type JobResult struct {
	Harness   string            `json:"harness"`
	Params    map[string]string `json:"params,omitempty"`
	Paths     []*PathResult     `json:"paths"`
	Funcs     []string          `json:"funcs"`
	Queries   int               `json:"queries"`
	SolverSec float64           `json:"solver_s"`
	WallSec   float64           `json:"wall_s"`
	Steps     int               `json:"steps"`
	SolverErr []string          `json:"solver_errors,omitempty"`
	Truncated bool              `json:"truncated,omitempty"`
}

type RunOpts struct {
	MaxPaths  int
	MaxSteps  int
	Unwind    int
	Permute   bool
	Witness   bool // produce a model for each completed path
	Trace     bool
	Solver    string
	TimeoutMs int
}

func defaultOpts() RunOpts {
	return RunOpts{MaxPaths: 20000, MaxSteps: 4_000_000, Unwind: 64, TimeoutMs: 60000, Solver: "z3"}
}

// RunHarness explores all paths of harness function fn.
func RunHarness(P *Program, sol *Solver, fn *ssa.Function, params map[string]string, opts RunOpts) *JobResult {
	t0 := time.Now()
	jr := &JobResult{Harness: fn.String(), Params: params}
	funcs := map[string]bool{}
	work := [][]int{nil}
	q0, s0 := sol.Queries, sol.SolveTime
	for len(work) > 0 {
		if len(jr.Paths) >= opts.MaxPaths {
			jr.Truncated = true
			break
		}
		prefix := work[len(work)-1]
		work = work[:len(work)-1]
		if sol.dead {
			if err := sol.Restart(); err != nil {
				jr.Truncated = true
				break
			}
		}
		pr, pending := runPath(P, sol, fn, params, prefix, opts, funcs)
		jr.Paths = append(jr.Paths, pr)
		jr.Steps += pr.Steps
		work = append(work, pending...)
	}
	for f := range funcs {
		jr.Funcs = append(jr.Funcs, f)
	}
	sort.Strings(jr.Funcs)
	jr.Queries = sol.Queries - q0
	jr.SolverSec = (sol.SolveTime - s0).Seconds()
	jr.WallSec = time.Since(t0).Seconds()
	jr.SolverErr = sol.Errors
	sol.Errors = nil
	return jr
}

func runPath(P *Program, sol *Solver, fn *ssa.Function, params map[string]string, prefix []int, opts RunOpts, funcs map[string]bool) (pr *PathResult, pending [][]int) {
	ts := NewTermStore()
	sol.Reset(ts)
	in := &Interp{P: P, ts: ts, sol: sol, glob: map[*ssa.Global]Ptr{}, prefix: prefix,
		maxSteps: opts.MaxSteps, unwind: opts.Unwind, permute: opts.Permute, params: params,
		funcs: funcs, choices: map[string]int{}, hooks: map[string]interface{}{}, injUFs: map[string]bool{},
		trace: opts.Trace, foreignErr: map[*ssa.Global]bool{}, blobDistinct: params["blob_distinct"] != ""}
	pr = &PathResult{Status: "ok"}
	in.res = pr
	t0 := time.Now()
	defer func() {
		defer in.gkillAll()
		pr.WallMs = time.Since(t0).Milliseconds()
		pr.Decisions = in.taken
		pr.Steps = in.steps
		pr.Choices = in.choices
		pending = in.pending
		if len(sol.Errors) > 0 {
			pr.Inconclusive = true
			pr.note("solver error: " + sol.Errors[len(sol.Errors)-1])
		}
		r := recover()
		if r == nil {
			if opts.Witness && pr.Status == "ok" {
				if res, m := sol.Check(in.axioms(), true); res == Sat {
					pr.Witness = m
				}
			}
			return
		}
		switch x := r.(type) {
		case pathInfeasible:
			pr.Status = "infeasible"
		case pathDone:
			pr.Status = "stopped"
			pr.Why = x.why
		case inconclusive:
			pr.Status = "inconclusive"
			pr.Why = x.why
			pr.Inconclusive = true
		case unsupportedErr:
			pr.Status = "unsupported"
			pr.Why = x.msg + " @ " + in.stack()
			pr.Inconclusive = true
		case *goPanic:
			pr.Status = "panic"
			pr.Why = x.msg + " @ " + x.stack
			res, m := sol.Check(in.axioms(), true)
			if res == Sat {
				if r2, m2 := sol.Check(in.niceStrings(), true); r2 == Sat {
					m = m2
				}
				pr.PanicModel = m
			} else if res == Unknown {
				pr.Inconclusive = true
			}
		default:
			// engine bug: report as unsupported with Go stack
			pr.Status = "unsupported"
			pr.Why = fmt.Sprintf("engine panic: %v @ %s", r, in.stack())
			pr.Inconclusive = true
			if os.Getenv("GOSX_DEBUG") != "" {
				panic(r)
			}
		}
	}()
	// package initialisation of the harness' package (transitively, own packages only)
	if fn.Pkg != nil {
		if init := fn.Pkg.Func("init"); init != nil {
			in.callFunc(nil, init, nil, nil, nil)
		}
	}
	in.callFunc(nil, fn, nil, nil, nil)
	return
}

// axioms returns side conditions added to every query (injectivity of flagged UFs, blob equalities).
func (in *Interp) axioms() []*Term {
	in.flushAxioms()
	return nil
}

// flushAxioms asserts (once, at base level) the side conditions that are valid on the whole path.
func (in *Interp) flushAxioms() {
	for _, a := range in.computeAxioms() {
		if in.axDone == nil {
			in.axDone = map[int]bool{}
		}
		if !in.axDone[a.id] {
			in.axDone[a.id] = true
			in.sol.Assert(a)
		}
	}
}

func (in *Interp) computeAxioms() []*Term {
	var ax []*Term
	if len(in.injUFs) > 0 {
		byName := map[string][]*Term{}
		for _, t := range in.ts.tab {
			if t.op == OApp && in.injUFs[t.s] && !in.altTerms[t] {
				byName[t.s] = append(byName[t.s], t)
			}
		}
		for _, name := range sortedKeys(byName) {
			apps := byName[name]
			sort.Slice(apps, func(i, j int) bool { return apps[i].id < apps[j].id })
			if l, _ := in.hooks["conc:"+name].(*[]concPair); l != nil {
				for _, app := range apps {
					if len(app.args) != 1 || app.args[0].sort.K != SStr {
						continue
					}
					for _, p := range *l {
						var out *Term
						switch {
						case app.sort.K == SStr:
							out = in.ts.Str(p.out)
						case app.sort.K == SBV && app.sort.W == 8*len(p.out) && len(p.out) > 0:
							out = in.ts.BV(8, uint64(p.out[0]))
							for k := 1; k < len(p.out); k++ {
								out = in.ts.Concat(out, in.ts.BV(8, uint64(p.out[k])))
							}
						default:
							continue
						}
						ax = append(ax, in.ts.Implies(in.ts.Eq(app, out), in.ts.Eq(app.args[0], in.ts.Str(p.in))))
					}
				}
			}
			for i := 0; i < len(apps); i++ {
				for j := i + 1; j < len(apps); j++ {
					argsEq := in.ts.True()
					for k := range apps[i].args {
						argsEq = in.ts.And(argsEq, in.ts.Eq(apps[i].args[k], apps[j].args[k]))
					}
					ax = append(ax, in.ts.Implies(in.ts.Eq(apps[i], apps[j]), argsEq))
				}
			}
		}
	}
	// lengths of opaque strings are not negative
	{
		var apps []*Term
		for _, t := range in.ts.tab {
			if t.op == OApp && t.s == "len!" && !in.altTerms[t] {
				apps = append(apps, t)
			}
		}
		sort.Slice(apps, func(i, j int) bool { return apps[i].id < apps[j].id })
		for _, a := range apps {
			ax = append(ax, in.ts.ILe(in.ts.Int(0), a))
		}
	}
	// BLS shares bind their message: one share value cannot verify under the same key share for two different messages
	// (it would make H(m) = H(m'), a hash collision). tbls.valid(poly, idx, msg, value).
	{
		var apps []*Term
		for _, t := range in.ts.tab {
			if t.op == OApp && t.s == "tbls.valid" && len(t.args) == 4 {
				apps = append(apps, t)
			}
		}
		sort.Slice(apps, func(i, j int) bool { return apps[i].id < apps[j].id })
		for i := 0; i < len(apps); i++ {
			for j := i + 1; j < len(apps); j++ {
				a, b := apps[i], apps[j]
				// only for syntactically identical (key share, value): the case that matters (one share offered for two
				// messages) and cheap; pairs the solver could merely MAKE equal are left unconstrained (weaker assumption)
				if a.args[0] != b.args[0] || a.args[1] != b.args[1] || a.args[3] != b.args[3] {
					continue
				}
				ax = append(ax, in.ts.Implies(in.ts.And(a, b), in.ts.Eq(a.args[2], b.args[2])))
			}
		}
	}
	// JSON blobs: opaque string symbols are equal iff the trees are structurally equal. Only on request
	// (param blob_axioms): without these axioms the symbols of semantically equal but syntactically different trees are
	// unrelated, which over-approximates (sound for proving; spurious counterexamples are filtered by native replay).
	if in.params["blob_axioms"] != "" {
		// one representative per distinct symbol
		var reps []*Blob
		seenStr := map[int]bool{}
		for _, b := range in.blobs {
			if b.Str == nil || seenStr[b.Str.id] {
				continue
			}
			seenStr[b.Str.id] = true
			reps = append(reps, b)
		}
		n := len(reps)
		eq := make([][]*Term, n)
		rigid := make([]bool, n)
		for i := range eq {
			eq[i] = make([]*Term, n)
			rigid[i] = in.blobDistinct
		}
		for i := 0; i < n; i++ {
			for j := i + 1; j < n; j++ {
				je := in.jsonEq(reps[i].Node, reps[j].Node)
				eq[i][j] = je
				if !(je.IsConst() && !je.BoolVal()) {
					rigid[i], rigid[j] = false, false
				}
			}
		}
		// a tree that differs structurally from every other tree gets an integer tag: distinctness by congruence instead
		// of a quadratic number of sequence disequalities (which z3's sequence solver does not digest)
		for i := 0; i < n; i++ {
			if rigid[i] {
				ax = append(ax, in.ts.Eq(in.ts.App("blob.tag", IntSort, reps[i].Str), in.ts.Int(int64(i+1))))
			}
		}
		for i := 0; i < n; i++ {
			for j := i + 1; j < n; j++ {
				je := eq[i][j]
				if je.IsConst() && !je.BoolVal() {
					if !in.blobDistinct || (rigid[i] && rigid[j]) {
						continue // distinctness only on request (vf.Param blob_distinct); tagged pairs need nothing more
					}
				}
				ax = append(ax, in.ts.Eq(in.ts.Eq(reps[i].Str, reps[j].Str), je))
			}
		}
	}
	return ax
}

func fmtDecisions(d []int) string {
	var sb strings.Builder
	for i, x := range d {
		if i > 0 {
			sb.WriteByte('.')
		}
		fmt.Fprint(&sb, x)
	}
	return sb.String()
}
