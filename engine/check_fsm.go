package main

// C05 / C06 / C19 / C02: reachable abstract state graph of a round, closed under the symbolic step relation.

import (
	"fmt"
	"os"
	"sort"
	"strconv"
	"strings"
)

const fsmPkg = "fsm/state_machines"

var fsmEvents = []string{
	"event_sig_proposal_init", "event_sig_proposal_confirm_by_participant", "event_sig_proposal_decline_by_participant",
	"event_dkg_init_process",
	"event_dkg_commit_confirm_received", "event_dkg_commit_confirm_canceled_by_error",
	"event_dkg_deal_confirm_received", "event_dkg_deal_confirm_canceled_by_error",
	"event_dkg_response_confirm_received", "event_dkg_response_confirm_canceled_by_error",
	"event_dkg_master_key_confirm_received", "event_dkg_master_key_confirm_canceled_by_error",
	"event_signing_init", "event_signing_start", "event_signing_partial_sign_received",
	"event_signing_partial_sign_error_received", "event_signing_restart", "event_vf_unknown",
}

type fsmEdge struct {
	From, Event, To string
	Accepted        bool
}

type fsmGraph struct {
	States map[string]bool
	Parent map[string]fsmEdge
	Edges  []fsmEdge
	Obs    map[string]int
}

func absState(a string) string { return strings.SplitN(a, ";", 2)[0] }

// exploreFSM computes the fixpoint. filter (optional) restricts which abstract states are expanded.
func exploreFSM(cr *CheckRun, maxn int, witness bool) *fsmGraph {
	g := &fsmGraph{States: map[string]bool{}, Parent: map[string]fsmEdge{}, Obs: map[string]int{}}
	start := "__idle;0;0;-;-;-;..."
	g.States[start] = true
	frontier := []string{start}
	opts := defaultOpts()
	opts.Witness = witness
	round := 0
	for len(frontier) > 0 {
		round++
		mk := func(a, ev string, variant int) Job {
			return Job{Pkg: fsmPkg, Fn: "VF_FSMStep", Opts: opts, Tag: "state=" + a + " event=" + ev + " variant=" + strconv.Itoa(variant),
				Case:   "state=" + absState(a) + " event=" + ev,
				Params: map[string]string{"abs": a, "event": ev, "variant": strconv.Itoa(variant), "maxn": strconv.Itoa(maxn)}}
		}
		var jobs []Job
		for _, a := range frontier {
			for _, ev := range fsmEvents {
				jobs = append(jobs, mk(a, ev, 0))
			}
		}
		res := cr.Pool.Run(jobs)
		cr.absorb(jobs, res)
		// malformed-argument variants (wrong request type, no argument) only where the transition table lets the
		// event through at all: otherwise Do() rejects before looking at the arguments
		var jobs2 []Job
		for i, jr := range res {
			acc := false
			for _, p := range jr.Paths {
				for _, r := range p.Records {
					if r.Key == "edge" && len(r.Vals) > 0 && r.Vals[0] == "accepted" {
						acc = true
					}
				}
			}
			if acc {
				jobs2 = append(jobs2, mk(jobs[i].Params["abs"], jobs[i].Params["event"], 1), mk(jobs[i].Params["abs"], jobs[i].Params["event"], 2))
			}
		}
		res2 := cr.Pool.Run(jobs2)
		cr.absorb(jobs2, res2)
		jobs = append(jobs, jobs2...)
		res = append(res, res2...)
		var next []string
		for i, jr := range res {
			j := jobs[i]
			for _, p := range jr.Paths {
				for _, r := range p.Records {
					switch r.Key {
					case "edge":
						if len(r.Vals) < 2 {
							continue
						}
						e := fsmEdge{From: j.Params["abs"], Event: j.Params["event"], To: r.Vals[1], Accepted: r.Vals[0] == "accepted"}
						if r.Vals[0] == "unrestorable" {
							continue
						}
						if strings.HasPrefix(e.To, "<sym") {
							cr.note("abstract post-state is symbolic: " + j.Tag)
							continue
						}
						g.Edges = append(g.Edges, e)
						if e.Accepted && !g.States[e.To] {
							g.States[e.To] = true
							g.Parent[e.To] = e
							next = append(next, e.To)
							if witness && p.Witness != nil && len(cr.samples) < 6 {
								cr.samples = append(cr.samples, map[string]interface{}{"edge": e, "request_model": trimModel(p.Witness, "req.")})
							}
						}
					case "observation":
						g.Obs[strings.Join(r.Vals, " ")]++
					}
				}
			}
		}
		sort.Strings(next)
		frontier = next
		if round > 200 {
			cr.note("fixpoint did not converge in 200 rounds")
			break
		}
	}
	cr.states = len(g.States)
	// distinct transitions
	seen := map[string]bool{}
	for _, e := range g.Edges {
		seen[e.From+"|"+e.Event+"|"+e.To+"|"+strconv.FormatBool(e.Accepted)] = true
	}
	cr.trans = len(seen)
	return g
}

func trimModel(m map[string]ModelVal, prefix string) map[string]interface{} {
	out := map[string]interface{}{}
	for k, v := range m {
		if !strings.HasPrefix(k, prefix) {
			continue
		}
		switch v.Sort {
		case "bv":
			out[k] = int64(v.U)
		case "int":
			out[k] = v.I
		case "bool":
			out[k] = v.B
		case "str":
			out[k] = string(v.S)
		}
	}
	return out
}

// history returns the witness event sequence from __idle to abstract state a.
func (g *fsmGraph) history(a string) []string {
	var h []string
	for {
		e, ok := g.Parent[a]
		if !ok {
			break
		}
		h = append([]string{e.Event + " -> " + absState(e.To)}, h...)
		a = e.From
	}
	return h
}

func (g *fsmGraph) succ() map[string][]string {
	s := map[string][]string{}
	for _, e := range g.Edges {
		if e.Accepted {
			s[e.From] = append(s[e.From], e.To)
		}
	}
	return s
}

// reachable states from a
func (g *fsmGraph) reach(a string, succ map[string][]string) map[string]bool {
	seen := map[string]bool{a: true}
	st := []string{a}
	for len(st) > 0 {
		x := st[len(st)-1]
		st = st[:len(st)-1]
		for _, y := range succ[x] {
			if !seen[y] {
				seen[y] = true
				st = append(st, y)
			}
		}
	}
	return seen
}

var dkgCancelled = map[string]bool{
	"state_sig_proposal_canceled_by_participant": true, "state_sig_proposal_canceled_by_timeout": true,
	"state_dkg_commits_await_canceled_by_error": true, "state_dkg_commits_await_canceled_by_timeout": true,
	"state_dkg_deals_await_canceled_by_error": true, "state_dkg_deals_await_canceled_by_timeout": true,
	"state_dkg_responses_await_canceled_by_error": true, "state_dkg_responses_sending_canceled_by_timeout": true,
	"state_dkg_master_key_await_canceled_by_error": true, "state_dkg_master_key_await_canceled_by_timeout": true,
}

func hasPrefixAny(s string, ps ...string) bool {
	for _, p := range ps {
		if strings.HasPrefix(s, p) {
			return true
		}
	}
	return false
}

func ownerC19(l string) bool {
	return hasPrefixAny(l, "restore-succeeds", "payload-roundtrip", "restored-machine-state", "restored-behaves-equal", "list-succeeds")
}
func ownerC02(l string) bool {
	return hasPrefixAny(l, "masterkeys-equal", "poly-", "keyring-from-one-distkey", "honest-step-succeeds")
}
func ownerC06(l string) bool {
	return hasPrefixAny(l, "handover-only-signing-init", "signing-init-state", "idle-accepts-only-start", "start-", "restart-to-idle",
		"finished-accepts-only-restart", "await-accepts-only-contributions", "no-double-count", "batch-binding", "collect-iff-t",
		"cancel-iff-failed", "error-waits", "response-lists-contributors", "response-batch", "response-payload")
}
func ownerC05(l string) bool {
	if ownerC19(l) || ownerC02(l) || ownerC06(l) || l == "nopanic" {
		return false
	}
	return true
}

func fsmCommon(cr *CheckRun, maxn int) *fsmGraph {
	cr.bounds["participants_n"] = fmt.Sprintf("2..%d (every n and every t in [2,n] reachable from __idle)", maxn)
	cr.bounds["byte_fields"] = "stored: 1 symbolic byte each; request: length 0..2 (nil/empty/1/2 symbolic bytes)"
	cr.bounds["strings"] = "batch ids and message ids: unbounded symbolic sequences; usernames fixed distinct constants"
	cr.bounds["timestamps"] = "every stored and request timestamp symbolic (zero time included for requests)"
	cr.bounds["histories"] = "unbounded: fixpoint of the abstract state graph under the symbolic step relation"
	cr.bounds["partial_signs_per_request"] = "0..2"
	cr.bounds["loop_unwinding_cap"] = defaultOpts().Unwind
	cr.bounds["outside"] = "n > " + strconv.Itoa(maxn) + "; longer byte payloads; more than 2 partial signatures per request; Go map iteration order other than the canonical one"
	cr.assume = append(cr.assume,
		"abstraction gamma over-approximates stored data: every stored byte/time is free except the invariants 'an await state is not expired' and 'confirmed master keys are equal in master-key await/collected states'",
		"encoding/json modelled by the typed structural codec derived from go/types (validated by native replays)",
		"sync.Mutex operations are no-ops (single-threaded step)")
	cr.trusted = append(cr.trusted, "gosx SSA->SMT executor", "z3 4.8.12", "go/ssa v0.29.0", "typed JSON codec model")
	g := exploreFSM(cr, maxn, true)
	cr.exhaustive = true
	cr.extra["observations"] = g.Obs
	return g
}

func tierN(cr *CheckRun) int {
	if cr.Tier == "thorough" {
		return 4
	}
	return 3
}

func init() {
	checkDefs["C05"] = &checkDef{level: "model_checking", pkgs: []string{fsmPkg}, run: func(cr *CheckRun) {
		cr.owner = ownerC05
		g := fsmCommon(cr, tierN(cr))
		cr.explanation = "Reachable abstract round states closed under one symbolic FSM step (real FromDump + FSMInstance.Do executed from SSA); per edge the C05 step predicates are asserted; graph-level: no cancelled state reaches signing-ready."
		// graph level: a cancelled round never becomes signing-ready
		succ := g.succ()
		bad := 0
		for a := range g.States {
			if !dkgCancelled[absState(a)] {
				continue
			}
			for b := range g.reach(a, succ) {
				if hasPrefixAny(absState(b), "stage_signing", "state_signing", "state_dkg_master_key_collected") {
					bad++
					cr.fails = append(cr.fails, Violation{Label: "cancel-absorbing:graph", Case: a + " ~> " + b})
				}
			}
			cr.stat("cancel-absorbing:graph").Proved++
		}
		if bad > 0 {
			cr.stat("cancel-absorbing:graph").Failed += bad
		}
		// phase order on the graph: every path to signing idle passes all phases in order (by construction of no-skip on edges)
		for a := range g.States {
			if absState(a) == "stage_signing_idle" && len(cr.samples) < 8 {
				cr.samples = append(cr.samples, map[string]interface{}{"state": a, "witness_history": g.history(a)})
				break
			}
		}
	}}
	checkDefs["C06"] = &checkDef{level: "model_checking", pkgs: []string{fsmPkg}, run: func(cr *CheckRun) {
		cr.owner = ownerC06
		g := fsmCommon(cr, tierN(cr))
		cr.explanation = "Same fixpoint as C05; on every edge of the signing part: collection iff the t-th distinct contribution, no double counting, batch binding, cancellation iff failed > n-t, response lists exactly the contributors, restart returns to idle."
		for a := range g.States {
			if absState(a) == "state_signing_partial_signs_collected" && len(cr.samples) < 8 {
				cr.samples = append(cr.samples, map[string]interface{}{"state": a, "witness_history": g.history(a)})
				break
			}
		}
	}}
	checkDefs["C19"] = &checkDef{level: "model_checking", pkgs: []string{fsmPkg}, run: func(cr *CheckRun) {
		cr.owner = ownerC19
		cr.groupKey = func(v Violation) string {
			if strings.HasPrefix(v.Label, "restore-succeeds:") || strings.HasPrefix(v.Label, "payload-roundtrip:") || strings.HasPrefix(v.Label, "restored-machine-state:") {
				return v.Label // the label names the state; the event of the step is irrelevant
			}
			return v.Label + " @ " + v.Case
		}
		g := fsmCommon(cr, tierN(cr))
		cr.explanation = "Every abstract state of the fixpoint is dumped (json.Marshal model) and restored by the real FromDump; payload round trip is compared field by field; restored-vs-in-memory behaviour is compared by the two-step harness."
		names := map[string]bool{}
		for a := range g.States {
			names[absState(a)] = true
		}
		var ns []string
		for n := range names {
			ns = append(ns, n)
		}
		sort.Strings(ns)
		cr.extra["reachable_state_names"] = ns
		if os.Getenv("GOSX_SKIP_STEP2") == "" {
			fsmStep2(cr, g)
		}
	}}
	checkDefs["C02"] = &checkDef{level: "model_checking", pkgs: []string{fsmPkg, airPkg}, run: func(cr *CheckRun) {
		cr.owner = ownerC02
		g := fsmCommon(cr, tierN(cr))
		// the announcements as genuine encodings of polynomials (same, one commitment more, another coefficient, one
		// commitment less, another JSON layout) on every master-key await state of the graph
		{
			var pj []Job
			var names []string
			for a := range g.States {
				if absState(a) == "state_dkg_master_key_await_confirmations" {
					names = append(names, a)
				}
			}
			sort.Strings(names)
			for _, a := range names {
				pj = append(pj, Job{Pkg: fsmPkg, Fn: "VF_FSMStep", Opts: defaultOpts(), Tag: "state=" + a + " event=event_dkg_master_key_confirm_received polynomial encodings",
					Case:   "state=" + absState(a) + " event=event_dkg_master_key_confirm_received",
					Params: map[string]string{"abs": a, "event": "event_dkg_master_key_confirm_received", "variant": "0", "maxn": strconv.Itoa(tierN(cr)), "polyshape": "1"}})
			}
			res := cr.Pool.Run(pj)
			cr.absorb(pj, res)
			cr.bounds["polynomial_announcements"] = fmt.Sprintf("%d master-key await states x {identical encoding, one more commitment, another coefficient, one commitment less, another JSON layout} with symbolic 2-byte commitments, in addition to opaque 0..1-byte values", len(pj))
		}
		cj := []Job{ceremonyJob("c02n2", 2, 2, map[string]string{"noleak": "1"}, "announcements and keyrings"),
			ceremonyJob("c02n2r2", 2, 2, map[string]string{"round2": "1", "t2": "2", "noleak": "1"}, "two rounds on the same machines (n=2)")}
		nat := []map[string]int{{}, {}}
		if cr.Tier == "thorough" {
			// n = 3 (different thresholds in the two rounds): minutes of solver time and `unknown` answers on a loaded machine,
			// hence not part of the quick tier
			cj = append(cj, ceremonyJob("c02n3", 3, 2, map[string]string{"round2": "1", "t2": "3", "noleak": "1"}, "two rounds on the same machines (t=2, then t=3)"))
			nat = append(nat, map[string]int{})
			cj = append(cj, ceremonyJob("c02n3t3", 3, 3, map[string]string{"round2": "1", "t2": "2", "noleak": "1"}, "two rounds on the same machines (t=3, then t=2)"))
		}
		runCeremony(cr, cj, nat)
		cr.explanation = "Hot-node half of C02: on every master-key announcement edge of the fixpoint, reaching state_dkg_master_key_collected requires all announced keys equal and (ghost bit) all announced polynomials equal to the retained one. Airgapped half (contract level, harness VF_Air_Ceremony): n real machines run the four DKG steps from their SSA over the kyber Pedersen-DKG contracts; every machine announces the same group key and the same polynomial, the announced key is the constant term of the announced polynomial, the stored keyring holds that polynomial and exactly the share of DistKeyShare(); with two rounds on the same machines every round id maps to its own keyring (loadBLSKeyring and GetBLSKeyrings, LevelDB iterator buffer reuse modelled). The same scenarios run natively with real kyber on every run. That the n shares lie on one polynomial is kyber's DKG correctness (contract)."
	}}
}

// fsmStep2: C19(3) restored-vs-in-memory behavioural equivalence (two-step harness), on a sample of states per name.
func fsmStep2(cr *CheckRun, g *fsmGraph) {
	var states []string
	for a := range g.States {
		states = append(states, a)
	}
	sort.Strings(states)
	var jobs []Job
	opts := defaultOpts()
	if cr.Tier != "thorough" {
		// quick tier: one representative abstract state per (state name, n); thorough: every abstract state
		seen := map[string]bool{}
		var sel []string
		for _, a := range states {
			f := strings.Split(a, ";")
			k := f[0] + ";" + f[1]
			if !seen[k] {
				seen[k] = true
				sel = append(sel, a)
			}
		}
		states = sel
		cr.bounds["two_step_harness"] = fmt.Sprintf("quick: %d representative abstract states (one per state name and n) x 18 first events x 18 second events; thorough: all abstract states", len(sel))
	}
	for _, a := range states {
		for _, e1 := range fsmEvents {
			jobs = append(jobs, Job{Pkg: fsmPkg, Fn: "VF_FSMStep2", Opts: opts, Tag: "state=" + a + " e1=" + e1, Case: "state=" + absState(a) + " e1=" + e1,
				Params: map[string]string{"abs": a, "event": e1, "variant": "0", "maxn": "3"}})
		}
	}
	res := cr.Pool.Run(jobs)
	cr.absorb(jobs, res)
}
