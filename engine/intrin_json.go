package main

// Typed structural model of encoding/json, derived from go/types on every run.
// Marshal snapshots a value as a JSON tree (JNode) keeping exactly the fields encoding/json keeps; the resulting
// []byte is an abstract blob (concrete bytes when the tree is fully concrete). Unmarshal maps a tree onto a
// target type by JSON name. Validated against the real encoding/json by the selftest and by every native replay.

import (
	"bytes"
	"encoding/base64"
	"encoding/json"
	"fmt"
	"go/types"
	"reflect"
	"sort"
	"strconv"
	"strings"
	"time"
	"unicode/utf8"

	"golang.org/x/tools/go/ssa"
)

type JKind int

const (
	JNull JKind = iota
	JBool
	JNum
	JStr
	JArr
	JObj
	JBytes // JSON string holding base64 of a byte slice
	JTime  // JSON string holding RFC3339Nano of a time
)

type JNode struct {
	K      JKind
	T      *Term // JBool: Bool; JNum: BV (or nil if Text/Float); JStr: Str; JTime: Int
	Signed bool
	Text   string // JNum parsed from concrete text
	Elems  []*JNode
	Keys   []*Term // JObj: Str terms
	KeyInt []*Term // JObj from map[int-kind]: BV key terms (parallel to Keys), else nil
	KeySg  bool
	Vals   []*JNode
	IsMap  bool
	Bytes  SliceV
}

type jfield struct {
	name      string
	path      []int
	omitEmpty bool
	typ       types.Type
}

func jsonFields(st *types.Struct) []jfield {
	var out []jfield
	for i := 0; i < st.NumFields(); i++ {
		f := st.Field(i)
		tag := reflect.StructTag(st.Tag(i)).Get("json")
		if tag == "-" {
			continue
		}
		name, opts, _ := strings.Cut(tag, ",")
		if f.Embedded() && name == "" {
			ft := f.Type()
			if p, ok := ft.Underlying().(*types.Pointer); ok {
				ft = p.Elem()
			}
			if est, ok := ft.Underlying().(*types.Struct); ok {
				if _, isPtr := f.Type().Underlying().(*types.Pointer); !isPtr {
					for _, sub := range jsonFields(est) {
						sub.path = append([]int{i}, sub.path...)
						out = append(out, sub)
					}
					continue
				}
			}
		}
		if !f.Exported() {
			continue
		}
		if name == "" {
			name = f.Name()
		}
		out = append(out, jfield{name: name, path: []int{i}, omitEmpty: strings.Contains(","+opts+",", ",omitempty,"), typ: f.Type()})
	}
	return out
}

func fieldAt(s Struct, path []int) Ptr {
	cur := s
	for i, p := range path {
		if i == len(path)-1 {
			return &cur[p]
		}
		cur = cur[p].(Struct)
	}
	return nil
}

func hasMethod(P *Program, t types.Type, name string) *ssa.Function {
	sel := types.NewMethodSet(t).Lookup(nil, name)
	if sel == nil {
		return nil
	}
	return P.prog.MethodValue(sel)
}

func (in *Interp) newJSONBlob(n *JNode) *Blob {
	in.opq++
	b := &Blob{ID: in.opq, Node: n}
	if bs, ok := in.renderJSON(n); ok {
		b.Str = in.ts.Str(string(bs))
		if in.params["blob_axioms"] != "" && len(in.blobs) < 400 {
			// concrete texts take part in the "equal iff structurally equal" axioms too, otherwise a symbolic blob could be
			// made equal to a concrete text of a different shape
			if in.blobOfStr == nil {
				in.blobOfStr = map[*Term]*Blob{}
			}
			if _, seen := in.blobOfStr[b.Str]; !seen {
				in.blobOfStr[b.Str] = b
				in.blobs = append(in.blobs, b)
			}
		}
	}
	return b
}

// blobStr materialises the string term of a blob (opaque symbol for symbolic JSON blobs).
func (in *Interp) blobStr(b *Blob) *Term {
	if b.Str == nil {
		// structurally identical trees share one symbol (congruence for hashes / signatures comes for free)
		key := "jsonsym:" + in.nodeKey(b.Node)
		if t, ok := in.hooks[key].(*Term); ok {
			b.Str = t
			return t
		}
		name := fmt.Sprintf("json#%d", b.ID)
		in.ts.big[name] = true
		b.Str = in.ts.FreshSym(name, StrSort)
		in.hooks[key] = b.Str
		if in.params["exact_json_len"] != "" {
			in.addPC(in.ts.Eq(in.ts.SLen(b.Str), in.jsonLen(b.Node)))
		} else {
			in.addPC(in.ts.ILe(in.ts.Int(int64(in.jsonMinLen(b.Node))), in.ts.SLen(b.Str)))
		}
		in.blobs = append(in.blobs, b)
		if in.blobOfStr == nil {
			in.blobOfStr = map[*Term]*Blob{}
		}
		in.blobOfStr[b.Str] = b
	}
	return b.Str
}

// nodeKey: syntactic identity of a tree (term ids).
func (in *Interp) nodeKey(n *JNode) string {
	var sb strings.Builder
	var walk func(n *JNode)
	tid := func(t *Term) {
		if t == nil {
			sb.WriteString("_")
		} else {
			sb.WriteString(strconv.Itoa(t.id))
		}
		sb.WriteByte(',')
	}
	walk = func(n *JNode) {
		sb.WriteString(strconv.Itoa(int(n.K)))
		sb.WriteByte(':')
		switch n.K {
		case JBool, JStr, JTime:
			tid(n.T)
		case JNum:
			tid(n.T)
			sb.WriteString(n.Text)
			if n.Signed {
				sb.WriteByte('s')
			}
		case JBytes:
			if n.Bytes.Blob != nil {
				sb.WriteString("B")
				tid(in.blobStr(n.Bytes.Blob))
			} else {
				for _, e := range n.Bytes.A {
					tid(e.(*Term))
				}
			}
		case JArr:
			sb.WriteByte('[')
			for _, e := range n.Elems {
				walk(e)
			}
			sb.WriteByte(']')
		case JObj:
			sb.WriteByte('{')
			for i := range n.Keys {
				tid(n.Keys[i])
				walk(n.Vals[i])
			}
			sb.WriteByte('}')
		}
		sb.WriteByte(';')
	}
	walk(n)
	return sb.String()
}

// jsonMinLen: a constant lower bound of the JSON text length.
func (in *Interp) jsonMinLen(n *JNode) int {
	switch n.K {
	case JNull, JBool:
		return 4
	case JNum:
		return 1
	case JStr:
		if n.T.IsConst() {
			return len(n.T.s) + 2
		}
		return 2
	case JTime:
		return 22
	case JBytes:
		if n.Bytes.Blob == nil {
			return 4*((len(n.Bytes.A)+2)/3) + 2
		}
		return 2
	case JArr:
		r := 2
		for i, e := range n.Elems {
			if i > 0 {
				r++
			}
			r += in.jsonMinLen(e)
		}
		return r
	case JObj:
		r := 2
		for i := range n.Keys {
			if i > 0 {
				r++
			}
			r += in.jsonMinLen(&JNode{K: JStr, T: n.Keys[i]}) + 1 + in.jsonMinLen(n.Vals[i])
		}
		return r
	}
	return 2
}

// jsonLen: length of the JSON text of a tree as an Int term (exact for concrete parts and base64; bounded fresh
// variables for decimal numbers, escaped symbolic strings and timestamps).
func (in *Interp) jsonLen(n *JNode) *Term {
	ts := in.ts
	fresh := func(lo, hi *Term) *Term {
		in.opq++
		v := ts.FreshSym(fmt.Sprintf("jsonlen#%d", in.opq), IntSort)
		in.addPC(ts.ILe(lo, v))
		in.addPC(ts.ILe(v, hi))
		return v
	}
	switch n.K {
	case JNull:
		return ts.Int(4)
	case JBool:
		if n.T.IsConst() {
			if n.T.BoolVal() {
				return ts.Int(4)
			}
			return ts.Int(5)
		}
		return ts.Ite(n.T, ts.Int(4), ts.Int(5))
	case JNum:
		if n.T == nil {
			return ts.Int(int64(len(n.Text)))
		}
		if n.T.IsConst() {
			b, _ := in.renderJSON(n)
			return ts.Int(int64(len(b)))
		}
		return fresh(ts.Int(1), ts.Int(20))
	case JStr:
		if n.T.IsConst() {
			if b, ok := in.renderJSON(n); ok {
				return ts.Int(int64(len(b)))
			}
		}
		l := ts.SLen(n.T)
		if n.T.op == OApp && (n.T.s == "uuidstr" || n.T.s == "hex" || n.T.s == "b64" || n.T.s == "itoa" || n.T.s == "utoa") {
			return ts.IAdd(l, ts.Int(2)) // these never contain characters that JSON escapes
		}
		six := ts.IAdd(ts.IAdd(ts.IAdd(l, l), ts.IAdd(l, l)), ts.IAdd(l, l))
		return fresh(ts.IAdd(l, ts.Int(2)), ts.IAdd(six, ts.Int(2)))
	case JTime:
		return fresh(ts.Int(22), ts.Int(37))
	case JBytes:
		l := in.lineLen(n.Bytes)
		if l.IsConst() {
			return ts.Int(4*((l.i+2)/3) + 2)
		}
		// 4*ceil(l/3)+2 with an auxiliary variable q = ceil(l/3): 3q-2 <= l <= 3q
		in.opq++
		q := ts.FreshSym(fmt.Sprintf("b64q#%d", in.opq), IntSort)
		q3 := ts.IAdd(q, ts.IAdd(q, q))
		in.addPC(ts.ILe(ts.ISub(q3, ts.Int(2)), l))
		in.addPC(ts.ILe(l, q3))
		in.addPC(ts.ILe(ts.Int(0), q))
		return ts.IAdd(ts.IAdd(ts.IAdd(q, q), ts.IAdd(q, q)), ts.Int(2))
	case JArr:
		r := ts.Int(2)
		for i, e := range n.Elems {
			if i > 0 {
				r = ts.IAdd(r, ts.Int(1))
			}
			r = ts.IAdd(r, in.jsonLen(e))
		}
		return r
	case JObj:
		r := ts.Int(2)
		for i := range n.Keys {
			if i > 0 {
				r = ts.IAdd(r, ts.Int(1))
			}
			r = ts.IAdd(r, ts.IAdd(in.jsonLen(&JNode{K: JStr, T: n.Keys[i]}), ts.Int(1)))
			r = ts.IAdd(r, in.jsonLen(n.Vals[i]))
		}
		return r
	}
	return ts.Int(2)
}

func isByteSlice(t types.Type) bool {
	sl, ok := t.Underlying().(*types.Slice)
	if !ok {
		return false
	}
	b, ok := sl.Elem().Underlying().(*types.Basic)
	return ok && b.Kind() == types.Uint8
}

// ---------------- Marshal ----------------

type jsonErr struct{ msg string }

func (in *Interp) marshalVal(t types.Type, v Value, depth int) *JNode {
	ts := in.ts
	if depth > 40 {
		panic(unsupported("json.Marshal: nesting too deep"))
	}
	if isTimeType(t) {
		return &JNode{K: JTime, T: v.(TimeV).T}
	}
	// custom marshalers (value receiver or via pointer already handled by caller)
	if _, isI := t.Underlying().(*types.Interface); !isI {
		if m := hasMethod(in.P, t, "MarshalJSON"); m != nil {
			if p, ok := v.(Ptr); ok && p == nil {
				return &JNode{K: JNull}
			}
			res := in.callFunc(in.cur, m, []Value{v}, nil, nil).(Tuple)
			if e := res[1].(Iface); e.T != nil {
				panic(jsonErr{"json: error calling MarshalJSON"})
			}
			out := res[0].(SliceV)
			if out.Blob != nil && out.Blob.Node != nil {
				return out.Blob.Node
			}
			if b, ok := concBytes(out); ok {
				n, err := in.parseJSON(b)
				if err != nil {
					panic(jsonErr{"json: error calling MarshalJSON: " + err.Error()})
				}
				return n
			}
			panic(unsupported("MarshalJSON returned symbolic bytes"))
		}
	}
	switch u := t.Underlying().(type) {
	case *types.Basic:
		switch {
		case u.Info()&types.IsBoolean != 0:
			return &JNode{K: JBool, T: v.(*Term)}
		case u.Info()&types.IsInteger != 0:
			_, sg := intWidth(u)
			return &JNode{K: JNum, T: v.(*Term), Signed: sg}
		case u.Info()&types.IsString != 0:
			return &JNode{K: JStr, T: v.(*Term)}
		case u.Info()&types.IsFloat != 0:
			return &JNode{K: JNum, Text: strconv.FormatFloat(v.(float64), 'g', -1, 64)}
		}
	case *types.Pointer:
		p := v.(Ptr)
		if p == nil {
			return &JNode{K: JNull}
		}
		return in.marshalVal(u.Elem(), *p, depth+1)
	case *types.Interface:
		i := v.(Iface)
		if i.T == nil {
			return &JNode{K: JNull}
		}
		return in.marshalVal(i.T, i.V, depth+1)
	case *types.Struct:
		s := v.(Struct)
		n := &JNode{K: JObj}
		for _, f := range jsonFields(u) {
			fv := *fieldAt(s, f.path)
			if f.omitEmpty && in.jsonEmpty(f.typ, fv) {
				continue
			}
			n.Keys = append(n.Keys, ts.Str(f.name))
			n.Vals = append(n.Vals, in.marshalVal(f.typ, fv, depth+1))
		}
		return n
	case *types.Map:
		m := v.(*MapV)
		if m == nil {
			return &JNode{K: JNull}
		}
		n := &JNode{K: JObj, IsMap: true}
		kb, ok := u.Key().Underlying().(*types.Basic)
		if !ok {
			panic(unsupported("json.Marshal: map key type " + u.Key().String()))
		}
		_, ksg := intWidth(kb)
		isInt := kb.Info()&types.IsInteger != 0
		n.KeySg = ksg
		ents := m.orderedEntries()
		if !isInt && len(m.idx) == len(m.Entries) {
			sort.SliceStable(ents, func(i, j int) bool { return ents[i].K.(*Term).s < ents[j].K.(*Term).s })
		} else if isInt && len(m.idx) == len(m.Entries) {
			// encoding/json sorts map keys as strings
			sort.SliceStable(ents, func(i, j int) bool {
				return strconv.FormatInt(ents[i].K.(*Term).SVal(), 10) < strconv.FormatInt(ents[j].K.(*Term).SVal(), 10)
			})
		}
		for _, e := range ents {
			kt := e.K.(*Term)
			if isInt {
				n.KeyInt = append(n.KeyInt, kt)
				if kt.IsConst() {
					if ksg {
						n.Keys = append(n.Keys, ts.Str(strconv.FormatInt(kt.SVal(), 10)))
					} else {
						n.Keys = append(n.Keys, ts.Str(strconv.FormatUint(kt.u, 10)))
					}
				} else {
					n.Keys = append(n.Keys, ts.App("itoa", StrSort, ts.Sext(64, kt)))
				}
			} else {
				n.Keys = append(n.Keys, kt)
			}
			n.Vals = append(n.Vals, in.marshalVal(u.Elem(), e.V, depth+1))
		}
		return n
	case *types.Slice:
		s := v.(SliceV)
		if s.A == nil && s.Blob == nil {
			return &JNode{K: JNull}
		}
		if isByteSlice(t) {
			if s.Blob == nil {
				s = SliceV{A: append([]Value{}, s.A...)}
			}
			return &JNode{K: JBytes, Bytes: s}
		}
		n := &JNode{K: JArr, Elems: []*JNode{}}
		for _, e := range s.A {
			n.Elems = append(n.Elems, in.marshalVal(u.Elem(), e, depth+1))
		}
		return n
	case *types.Array:
		a := v.(Array)
		n := &JNode{K: JArr, Elems: []*JNode{}}
		for _, e := range a {
			n.Elems = append(n.Elems, in.marshalVal(u.Elem(), e, depth+1))
		}
		return n
	case *types.Signature, *types.Chan:
		panic(jsonErr{"json: unsupported type: " + t.String()})
	}
	panic(unsupported("json.Marshal of " + t.String()))
}

func (in *Interp) jsonEmpty(t types.Type, v Value) bool {
	switch x := v.(type) {
	case *Term:
		switch x.sort.K {
		case SBool:
			return !in.branch(nil, nil, x)
		case SBV:
			return in.branch(nil, nil, in.ts.Eq(x, in.ts.BV(x.sort.W, 0)))
		case SStr:
			return in.branch(nil, nil, in.ts.Eq(x, in.ts.Str("")))
		}
	case SliceV:
		if x.Blob != nil {
			return in.branch(nil, nil, in.ts.Eq(in.lenTerm(x), in.ts.BV(64, 0)))
		}
		return len(x.A) == 0
	case *MapV:
		return x == nil || len(x.Entries) == 0
	case Ptr:
		return x == nil
	case Iface:
		return x.T == nil
	case float64:
		return x == 0
	case Array:
		return len(x) == 0
	}
	return false
}

// ---------------- render (fully concrete trees) ----------------

func (in *Interp) renderJSON(n *JNode) ([]byte, bool) {
	var buf bytes.Buffer
	if !in.render(&buf, n) {
		return nil, false
	}
	return buf.Bytes(), true
}

func jsonString(s string) []byte {
	var b bytes.Buffer
	enc := json.NewEncoder(&b)
	enc.SetEscapeHTML(true)
	enc.Encode(s)
	return bytes.TrimRight(b.Bytes(), "\n")
}

func (in *Interp) render(buf *bytes.Buffer, n *JNode) bool {
	switch n.K {
	case JNull:
		buf.WriteString("null")
	case JBool:
		if !n.T.IsConst() {
			return false
		}
		buf.WriteString(strconv.FormatBool(n.T.BoolVal()))
	case JNum:
		if n.T == nil {
			buf.WriteString(n.Text)
			return true
		}
		if !n.T.IsConst() {
			return false
		}
		if n.Signed {
			buf.WriteString(strconv.FormatInt(n.T.SVal(), 10))
		} else {
			buf.WriteString(strconv.FormatUint(n.T.u, 10))
		}
	case JStr:
		if !n.T.IsConst() {
			return false
		}
		if !utf8.ValidString(n.T.s) {
			return false // encoding/json would replace invalid UTF-8; keep abstract
		}
		buf.Write(jsonString(n.T.s))
	case JTime:
		if !n.T.IsConst() {
			return false
		}
		buf.WriteByte('"')
		buf.WriteString(nsToTime(n.T.i).Format(time.RFC3339Nano))
		buf.WriteByte('"')
	case JBytes:
		b, ok := concBytes(n.Bytes)
		if !ok {
			return false
		}
		buf.WriteByte('"')
		buf.WriteString(base64.StdEncoding.EncodeToString(b))
		buf.WriteByte('"')
	case JArr:
		buf.WriteByte('[')
		for i, e := range n.Elems {
			if i > 0 {
				buf.WriteByte(',')
			}
			if !in.render(buf, e) {
				return false
			}
		}
		buf.WriteByte(']')
	case JObj:
		buf.WriteByte('{')
		for i := range n.Keys {
			if i > 0 {
				buf.WriteByte(',')
			}
			if !n.Keys[i].IsConst() {
				return false
			}
			buf.Write(jsonString(n.Keys[i].s))
			buf.WriteByte(':')
			if !in.render(buf, n.Vals[i]) {
				return false
			}
		}
		buf.WriteByte('}')
	}
	return true
}

func nsToTime(ns int64) time.Time {
	if ns == zeroTimeNs {
		return time.Time{}
	}
	return time.Unix(0, ns).UTC()
}

func timeToNs(t time.Time) int64 {
	if t.IsZero() {
		return zeroTimeNs
	}
	return t.UnixNano()
}

// ---------------- parse concrete text ----------------

func (in *Interp) parseJSON(data []byte) (*JNode, error) {
	dec := json.NewDecoder(bytes.NewReader(data))
	dec.UseNumber()
	var v interface{}
	if err := dec.Decode(&v); err != nil {
		return nil, err
	}
	if dec.More() {
		return nil, fmt.Errorf("invalid character after top-level value")
	}
	// order of object keys: re-scan with tokens is overkill; sorted order is fine for our uses
	return in.fromGeneric(v), nil
}

func (in *Interp) fromGeneric(v interface{}) *JNode {
	ts := in.ts
	switch x := v.(type) {
	case nil:
		return &JNode{K: JNull}
	case bool:
		return &JNode{K: JBool, T: ts.Bool(x)}
	case json.Number:
		return &JNode{K: JNum, Text: string(x)}
	case string:
		return &JNode{K: JStr, T: ts.Str(x)}
	case []interface{}:
		n := &JNode{K: JArr, Elems: []*JNode{}}
		for _, e := range x {
			n.Elems = append(n.Elems, in.fromGeneric(e))
		}
		return n
	case map[string]interface{}:
		n := &JNode{K: JObj}
		keys := make([]string, 0, len(x))
		for k := range x {
			keys = append(keys, k)
		}
		sort.Strings(keys)
		for _, k := range keys {
			n.Keys = append(n.Keys, ts.Str(k))
			n.Vals = append(n.Vals, in.fromGeneric(x[k]))
		}
		return n
	}
	panic("fromGeneric")
}

// ---------------- Unmarshal ----------------

type unmarshalCtx struct {
	firstErr string
}

func (c *unmarshalCtx) fail(msg string) {
	if c.firstErr == "" {
		c.firstErr = msg
	}
}

func kindName(n *JNode) string {
	switch n.K {
	case JNull:
		return "null"
	case JBool:
		return "bool"
	case JNum:
		return "number"
	case JStr, JBytes, JTime:
		return "string"
	case JArr:
		return "array"
	case JObj:
		return "object"
	}
	return "?"
}

// strOfNode gives the string term a JSON string node denotes (JStr / JBytes / JTime).
func (in *Interp) strOfNode(n *JNode) *Term {
	ts := in.ts
	switch n.K {
	case JStr:
		return n.T
	case JBytes:
		if b, ok := concBytes(n.Bytes); ok {
			return ts.Str(base64.StdEncoding.EncodeToString(b))
		}
		in.injUFs["b64"] = true
		return ts.App("b64", StrSort, in.sliceStr(n.Bytes))
	case JTime:
		if n.T.IsConst() {
			return ts.Str(nsToTime(n.T.i).Format(time.RFC3339Nano))
		}
		return ts.App("fmttime", StrSort, n.T)
	}
	panic("strOfNode")
}

func (in *Interp) unmarshalInto(c *unmarshalCtx, t types.Type, dst Ptr, n *JNode, depth int) {
	ts := in.ts
	if depth > 40 {
		panic(unsupported("json.Unmarshal: nesting too deep"))
	}
	// custom unmarshaler on *T
	if _, isI := t.Underlying().(*types.Interface); !isI && !isTimeType(t) {
		if m := hasMethod(in.P, types.NewPointer(t), "UnmarshalJSON"); m != nil {
			if _, isPtr := t.Underlying().(*types.Pointer); !isPtr {
				if n.K == JNull {
					return
				}
				sub := SliceV{Blob: in.newJSONBlob(n)}
				res := in.callFunc(in.cur, m, []Value{dst, sub}, nil, nil)
				if e, ok := res.(Iface); ok && e.T != nil {
					c.fail("UnmarshalJSON error")
				}
				return
			}
		}
	}
	if isTimeType(t) {
		switch n.K {
		case JNull:
		case JTime:
			*dst = TimeV{n.T}
		case JStr:
			if n.T.IsConst() {
				tm, err := time.Parse(time.RFC3339, n.T.s)
				if err != nil {
					c.fail("parsing time: " + err.Error())
					return
				}
				*dst = TimeV{ts.Int(timeToNs(tm))}
				return
			}
			ok := ts.App("parsetime.ok", BoolSort, n.T)
			if in.branch(nil, nil, ok) {
				tt := ts.App("parsetime", IntSort, n.T)
				in.addPC(ts.Or(ts.Eq(tt, ts.Int(zeroTimeNs)), ts.And(ts.ILt(ts.Int(realTimeLo), tt), ts.ILt(tt, ts.Int(realTimeHi)))))
				*dst = TimeV{tt}
			} else {
				c.fail("parsing time: cannot parse")
			}
		default:
			c.fail("Time.UnmarshalJSON: input is not a JSON string")
		}
		return
	}
	if n.K == JNull {
		switch t.Underlying().(type) {
		case *types.Pointer, *types.Map, *types.Slice, *types.Interface:
			*dst = in.zero(t)
		}
		return
	}
	switch u := t.Underlying().(type) {
	case *types.Pointer:
		p := (*dst).(Ptr)
		if p == nil {
			cell := new(Value)
			*cell = in.zero(u.Elem())
			p = cell
			*dst = p
		}
		in.unmarshalInto(c, u.Elem(), p, n, depth+1)
	case *types.Interface:
		if u.NumMethods() != 0 {
			c.fail("json: cannot unmarshal " + kindName(n) + " into Go value of type " + t.String())
			return
		}
		*dst = in.genericValue(n)
	case *types.Struct:
		if n.K != JObj {
			c.fail("json: cannot unmarshal " + kindName(n) + " into Go struct")
			return
		}
		s := (*dst).(Struct)
		fields := jsonFields(u)
		for i, k := range n.Keys {
			if !k.IsConst() {
				panic(unsupported("json.Unmarshal: symbolic object key into struct"))
			}
			var f *jfield
			for j := range fields {
				if fields[j].name == k.s {
					f = &fields[j]
					break
				}
			}
			if f == nil {
				for j := range fields {
					if strings.EqualFold(fields[j].name, k.s) {
						f = &fields[j]
						break
					}
				}
			}
			if f == nil {
				continue
			}
			in.unmarshalInto(c, f.typ, fieldAt(s, f.path), n.Vals[i], depth+1)
		}
	case *types.Map:
		if n.K != JObj {
			c.fail("json: cannot unmarshal " + kindName(n) + " into Go value of type " + t.String())
			return
		}
		m, _ := (*dst).(*MapV)
		if m == nil {
			m = NewMap()
			*dst = m
		}
		kb, ok := u.Key().Underlying().(*types.Basic)
		if !ok {
			panic(unsupported("json.Unmarshal: map key type"))
		}
		kw, ksg := intWidth(kb)
		for i, k := range n.Keys {
			var key Value
			if kw != 0 {
				if n.KeyInt != nil {
					kt := n.KeyInt[i]
					if n.KeySg {
						key = ts.Sext(kw, kt)
					} else {
						key = ts.Zext(kw, kt)
					}
				} else if k.IsConst() {
					var kv uint64
					var err error
					if ksg {
						var sv int64
						sv, err = strconv.ParseInt(k.s, 10, kw)
						kv = uint64(sv)
					} else {
						kv, err = strconv.ParseUint(k.s, 10, kw)
					}
					if err != nil {
						c.fail("json: cannot unmarshal number " + k.s + " into Go value of type " + u.Key().String())
						continue
					}
					key = ts.BV(kw, kv)
				} else {
					panic(unsupported("json.Unmarshal: symbolic string key into int-keyed map"))
				}
			} else {
				key = k
			}
			cell := new(Value)
			*cell = in.zero(u.Elem())
			in.unmarshalInto(c, u.Elem(), cell, n.Vals[i], depth+1)
			in.mapSet(m, u.Key(), key, *cell)
		}
	case *types.Slice:
		if isByteSlice(t) {
			switch n.K {
			case JBytes:
				if n.Bytes.Blob != nil {
					*dst = n.Bytes
				} else {
					*dst = SliceV{A: append([]Value{}, n.Bytes.A...)}
				}
			case JStr:
				if n.T.IsConst() {
					b, err := base64.StdEncoding.DecodeString(n.T.s)
					if err != nil {
						c.fail("illegal base64 data")
						return
					}
					if b == nil {
						b = []byte{}
					}
					*dst = in.mkBytes(b)
					return
				}
				if n.T.op == OApp && n.T.s == "b64" {
					*dst = SliceV{Blob: in.strBlob(n.T.args[0])}
					return
				}
				if in.branch(nil, nil, ts.App("unb64.ok", BoolSort, n.T)) {
					*dst = SliceV{Blob: in.strBlob(ts.App("unb64", StrSort, n.T))}
				} else {
					c.fail("illegal base64 data")
				}
			case JTime:
				c.fail("illegal base64 data")
			case JArr:
				a := make([]Value, len(n.Elems))
				for i, e := range n.Elems {
					cell := new(Value)
					*cell = in.zero(u.Elem())
					in.unmarshalInto(c, u.Elem(), cell, e, depth+1)
					a[i] = *cell
				}
				*dst = SliceV{A: a}
			default:
				c.fail("json: cannot unmarshal " + kindName(n) + " into Go value of type []uint8")
			}
			return
		}
		if n.K != JArr {
			c.fail("json: cannot unmarshal " + kindName(n) + " into Go value of type " + t.String())
			return
		}
		a := make([]Value, len(n.Elems))
		for i, e := range n.Elems {
			cell := new(Value)
			*cell = in.zero(u.Elem())
			in.unmarshalInto(c, u.Elem(), cell, e, depth+1)
			a[i] = *cell
		}
		*dst = SliceV{A: a}
	case *types.Array:
		if n.K != JArr {
			c.fail("json: cannot unmarshal " + kindName(n) + " into Go value of type " + t.String())
			return
		}
		arr := (*dst).(Array)
		for i := range arr {
			if i < len(n.Elems) {
				in.unmarshalInto(c, u.Elem(), &arr[i], n.Elems[i], depth+1)
			} else {
				arr[i] = in.zero(u.Elem())
			}
		}
	case *types.Basic:
		switch {
		case u.Info()&types.IsString != 0:
			switch n.K {
			case JStr, JBytes, JTime:
				*dst = in.strOfNode(n)
			default:
				c.fail("json: cannot unmarshal " + kindName(n) + " into Go value of type string")
			}
		case u.Info()&types.IsBoolean != 0:
			if n.K != JBool {
				c.fail("json: cannot unmarshal " + kindName(n) + " into Go value of type bool")
				return
			}
			*dst = n.T
		case u.Info()&types.IsInteger != 0:
			if n.K != JNum {
				c.fail("json: cannot unmarshal " + kindName(n) + " into Go value of type " + t.String())
				return
			}
			w, sg := intWidth(u)
			if n.T == nil {
				var kv uint64
				var err error
				if sg {
					var sv int64
					sv, err = strconv.ParseInt(n.Text, 10, w)
					kv = uint64(sv)
				} else {
					kv, err = strconv.ParseUint(n.Text, 10, w)
				}
				if err != nil {
					c.fail("json: cannot unmarshal number " + n.Text + " into Go value of type " + t.String())
					return
				}
				*dst = ts.BV(w, kv)
				return
			}
			src := n.T
			sw := src.sort.W
			// does the source value fit the target type?
			fits := ts.True()
			var conv *Term
			if n.Signed {
				conv = ts.Sext(w, src)
				if w < sw {
					conv = ts.Extract(w-1, 0, src)
				}
				if sg {
					if w < sw {
						fits = ts.Eq(ts.Sext(sw, conv), src)
					}
				} else {
					nonneg := ts.BvSle(ts.BV(sw, 0), src)
					if w < sw {
						fits = ts.And(nonneg, ts.Eq(ts.Zext(sw, conv), src))
					} else {
						fits = nonneg
					}
				}
			} else {
				conv = ts.Zext(w, src)
				if w < sw {
					conv = ts.Extract(w-1, 0, src)
				}
				if sg {
					if w <= sw {
						// value must be < 2^(w-1)
						fits = ts.BvUlt(src, ts.BV(sw, uint64(1)<<uint(w-1)))
					}
				} else if w < sw {
					fits = ts.Eq(ts.Zext(sw, conv), src)
				}
			}
			if in.branch(nil, nil, fits) {
				*dst = conv
			} else {
				c.fail("json: cannot unmarshal number into Go value of type " + t.String() + " (overflow)")
			}
		case u.Info()&types.IsFloat != 0:
			if n.K != JNum {
				c.fail("json: cannot unmarshal " + kindName(n) + " into Go value of type " + t.String())
				return
			}
			if n.T == nil {
				f, err := strconv.ParseFloat(n.Text, 64)
				if err != nil {
					c.fail("bad float")
					return
				}
				*dst = f
				return
			}
			if n.T.IsConst() {
				if n.Signed {
					*dst = float64(n.T.SVal())
				} else {
					*dst = float64(n.T.u)
				}
				return
			}
			panic(unsupported("json.Unmarshal: symbolic number into float"))
		default:
			panic(unsupported("json.Unmarshal into basic " + t.String()))
		}
	default:
		panic(unsupported("json.Unmarshal into " + t.String()))
	}
}

var emptyIface = types.NewInterfaceType(nil, nil)

func (in *Interp) genericValue(n *JNode) Value {
	ts := in.ts
	switch n.K {
	case JNull:
		return Iface{}
	case JBool:
		return Iface{T: types.Typ[types.Bool], V: n.T}
	case JNum:
		if n.T == nil {
			f, _ := strconv.ParseFloat(n.Text, 64)
			return Iface{T: types.Typ[types.Float64], V: f}
		}
		if n.T.IsConst() {
			if n.Signed {
				return Iface{T: types.Typ[types.Float64], V: float64(n.T.SVal())}
			}
			return Iface{T: types.Typ[types.Float64], V: float64(n.T.u)}
		}
		panic(unsupported("json: symbolic number into interface{}"))
	case JStr, JBytes, JTime:
		return Iface{T: types.Typ[types.String], V: in.strOfNode(n)}
	case JArr:
		a := make([]Value, len(n.Elems))
		for i, e := range n.Elems {
			a[i] = in.genericValue(e)
		}
		return Iface{T: types.NewSlice(emptyIface), V: SliceV{A: a}}
	case JObj:
		m := NewMap()
		for i, k := range n.Keys {
			in.mapSet(m, types.Typ[types.String], k, in.genericValue(n.Vals[i]))
		}
		return Iface{T: types.NewMap(types.Typ[types.String], emptyIface), V: m}
	}
	_ = ts
	panic("genericValue")
}

// nodeOf obtains the JSON tree of a byte slice: structural blob, or parse of concrete text.
// Returns (nil, errmsg) for malformed concrete text; (nil, "") if the content is abstract non-JSON.
func (in *Interp) nodeOf(data SliceV) (*JNode, string) {
	if data.Blob != nil && data.Blob.Node != nil {
		return data.Blob.Node, ""
	}
	if b, ok := concBytes(data); ok {
		n, err := in.parseJSON(b)
		if err != nil {
			return nil, err.Error()
		}
		return n, ""
	}
	return nil, ""
}

// ---------------- equality of trees ----------------

func (in *Interp) jsonEq(a, b *JNode) *Term {
	ts := in.ts
	if a == b {
		return ts.True()
	}
	strk := func(k JKind) bool { return k == JStr || k == JBytes || k == JTime }
	if a.K != b.K {
		if strk(a.K) && strk(b.K) {
			return ts.Eq(in.strOfNode(a), in.strOfNode(b))
		}
		return ts.False()
	}
	switch a.K {
	case JNull:
		return ts.True()
	case JBool:
		return ts.Eq(a.T, b.T)
	case JStr:
		return ts.Eq(a.T, b.T)
	case JTime:
		return ts.Eq(a.T, b.T)
	case JNum:
		if a.T == nil || b.T == nil {
			if a.T == nil && b.T == nil {
				return ts.Bool(a.Text == b.Text)
			}
			x, y := a, b
			if x.T == nil {
				x, y = y, x
			}
			// y textual
			if x.Signed {
				v, err := strconv.ParseInt(y.Text, 10, 64)
				if err != nil {
					return ts.False()
				}
				return ts.Eq(ts.Sext(64, x.T), ts.BV(64, uint64(v)))
			}
			v, err := strconv.ParseUint(y.Text, 10, 64)
			if err != nil {
				return ts.False()
			}
			return ts.Eq(ts.Zext(64, x.T), ts.BV(64, v))
		}
		ext := func(n *JNode) *Term {
			if n.Signed {
				return ts.Sext(64, n.T)
			}
			return ts.Zext(64, n.T)
		}
		eq := ts.Eq(ext(a), ext(b))
		if a.Signed != b.Signed {
			// equal bit patterns denote equal numbers only when non-negative as signed
			eq = ts.And(eq, ts.BvSle(ts.BV(64, 0), ext(a)))
		}
		return eq
	case JBytes:
		return in.bytesEq(a.Bytes, b.Bytes)
	case JArr:
		if len(a.Elems) != len(b.Elems) {
			return ts.False()
		}
		r := ts.True()
		for i := range a.Elems {
			r = ts.And(r, in.jsonEq(a.Elems[i], b.Elems[i]))
		}
		return r
	case JObj:
		if len(a.Keys) != len(b.Keys) {
			return ts.False()
		}
		allConst := true
		for i := range a.Keys {
			if !a.Keys[i].IsConst() || !b.Keys[i].IsConst() {
				allConst = false
			}
		}
		r := ts.True()
		if allConst {
			idx := map[string]int{}
			for i, k := range b.Keys {
				idx[k.s] = i
			}
			for i, k := range a.Keys {
				j, ok := idx[k.s]
				if !ok {
					return ts.False()
				}
				r = ts.And(r, in.jsonEq(a.Vals[i], b.Vals[j]))
			}
			return r
		}
		for i := range a.Keys {
			r = ts.And(r, ts.Eq(a.Keys[i], b.Keys[i]), in.jsonEq(a.Vals[i], b.Vals[i]))
		}
		return r
	}
	return ts.False()
}

// ---------------- arbitrary values (decoded untrusted bytes) ----------------

func (in *Interp) arbBound() int {
	if s, ok := in.params["arb_len"]; ok {
		n, _ := strconv.Atoi(s)
		return n
	}
	return 2
}

func (in *Interp) arbitrary(t types.Type, name string, depth int) Value {
	ts := in.ts
	if depth > 8 {
		return in.zero(t)
	}
	if isTimeType(t) {
		tt := ts.FreshSym(name, IntSort)
		in.addPC(ts.Or(ts.Eq(tt, ts.Int(zeroTimeNs)), ts.And(ts.ILt(ts.Int(realTimeLo), tt), ts.ILt(tt, ts.Int(realTimeHi)))))
		return TimeV{tt}
	}
	switch u := t.Underlying().(type) {
	case *types.Basic:
		if u.Info()&types.IsBoolean != 0 {
			return ts.FreshSym(name, BoolSort)
		}
		if w, _ := intWidth(u); w != 0 {
			return ts.FreshSym(name, BVSort(w))
		}
		if u.Info()&types.IsString != 0 {
			return ts.FreshSym(name, StrSort)
		}
		return in.zero(t)
	case *types.Struct:
		s := make(Struct, u.NumFields())
		for i := range s {
			f := u.Field(i)
			if f.Exported() {
				s[i] = in.arbitrary(f.Type(), name+"."+f.Name(), depth+1)
			} else {
				s[i] = in.zero(f.Type())
			}
		}
		return s
	case *types.Pointer:
		if in.choice(2) == 0 {
			return Ptr(nil)
		}
		cell := new(Value)
		*cell = in.arbitrary(u.Elem(), name, depth+1)
		return Ptr(cell)
	case *types.Slice:
		if b, ok := u.Elem().Underlying().(*types.Basic); ok && b.Kind() == types.Uint8 {
			// byte strings: nil or one opaque blob of any length (no case split on the length)
			if in.choice(2) == 0 {
				return SliceV{}
			}
			in.ts.big[name] = true
			s := in.ts.FreshSym(name, StrSort)
			in.addPC(in.ts.ILe(in.ts.Int(0), in.ts.SLen(s)))
			return SliceV{Blob: in.strBlob(s)}
		}
		n := in.choice(in.arbBound()+2) - 1 // -1 => nil
		if n < 0 {
			return SliceV{}
		}
		a := make([]Value, n)
		for i := range a {
			a[i] = in.arbitrary(u.Elem(), fmt.Sprintf("%s[%d]", name, i), depth+1)
		}
		return SliceV{A: a}
	case *types.Array:
		a := make(Array, u.Len())
		for i := range a {
			a[i] = in.arbitrary(u.Elem(), fmt.Sprintf("%s[%d]", name, i), depth+1)
		}
		return a
	case *types.Map:
		n := in.choice(in.arbBound()+2) - 1
		if n < 0 {
			return (*MapV)(nil)
		}
		m := NewMap()
		for i := 0; i < n; i++ {
			k := in.arbitrary(u.Key(), fmt.Sprintf("%s.k%d", name, i), depth+1)
			v := in.arbitrary(u.Elem(), fmt.Sprintf("%s.v%d", name, i), depth+1)
			in.mapSet(m, u.Key(), k, v)
		}
		return m
	case *types.Interface:
		return Iface{}
	}
	return in.zero(t)
}

// ---------------- intrinsics ----------------

func registerJSON(P *Program) {
	P.reg("encoding/json.Marshal", func(in *Interp, caller *frame, fn *ssa.Function, args []Value) (res Value) {
		v := args[0].(Iface)
		defer func() {
			if r := recover(); r != nil {
				if je, ok := r.(jsonErr); ok {
					res = Tuple{SliceV{}, in.newError(in.ts.Str(je.msg))}
					return
				}
				panic(r)
			}
		}()
		var n *JNode
		if v.T == nil {
			n = &JNode{K: JNull}
		} else {
			n = in.marshalVal(v.T, v.V, 0)
		}
		return Tuple{SliceV{Blob: in.newJSONBlob(n)}, Iface{}}
	})
	P.reg("encoding/json.MarshalIndent", func(in *Interp, caller *frame, fn *ssa.Function, args []Value) Value {
		v := args[0].(Iface)
		n := in.marshalVal(v.T, v.V, 0)
		return Tuple{SliceV{Blob: in.newJSONBlob(n)}, Iface{}}
	})
	P.reg("encoding/json.Unmarshal", func(in *Interp, caller *frame, fn *ssa.Function, args []Value) Value {
		data := args[0].(SliceV)
		v := args[1].(Iface)
		pt, ok := v.T.(*types.Pointer)
		if v.T == nil || !ok {
			return in.newError(in.ts.Str("json: Unmarshal(non-pointer)"))
		}
		dst := v.V.(Ptr)
		if dst == nil {
			return in.newError(in.ts.Str("json: Unmarshal(nil pointer)"))
		}
		n, perr := in.nodeOf(data)
		if perr != "" {
			return in.newError(in.ts.Str(perr))
		}
		if n == nil {
			// abstract untrusted bytes: either a decoding error or an arbitrary value of the target type
			if data.A == nil && data.Blob == nil {
				return in.newError(in.ts.Str("unexpected end of JSON input"))
			}
			if data.Blob == nil && len(data.A) < 2 {
				switch pt.Elem().Underlying().(type) {
				case *types.Struct, *types.Map, *types.Slice:
					// no JSON text shorter than two bytes decodes into an object or array
					return in.newError(in.ts.Str("json: cannot unmarshal (text shorter than 2 bytes)"))
				}
			}
			blobID := fmt.Sprint(len(in.hooks))
			if data.Blob != nil {
				blobID = fmt.Sprint(data.Blob.ID)
			} else {
				// symbolic bytes that are not a blob (e.g. vf.Bytes): identified by their backing array
				ak := "arbarr" // identified by content: equal symbolic bytes decode to the same value
				for _, e := range data.A {
					if t, ok := e.(*Term); ok {
						ak += fmt.Sprintf(":%d", t.id)
					} else {
						ak += fmt.Sprintf(":%p", &data.A[0])
						break
					}
				}
				if id, ok := in.hooks[ak]; ok {
					blobID = id.(string)
				} else {
					blobID = "a" + blobID
					in.hooks[ak] = blobID
				}
			}
			key := fmt.Sprintf("arb:%s:%s", blobID, pt.Elem().String())
			if memo, ok := in.hooks[key]; ok {
				if memo == nil {
					return in.newError(in.ts.Str("invalid character (arbitrary bytes)"))
				}
				storeVal(dst, copyVal(memo.(Value)))
				return Iface{}
			}
			if in.choice(2) == 0 {
				in.hooks[key] = nil
				return in.newError(in.ts.Str("invalid character (arbitrary bytes)"))
			}
			val := in.arbitrary(pt.Elem(), "arb"+blobID, 0)
			in.hooks[key] = val
			storeVal(dst, copyVal(val))
			return Iface{}
		}
		c := &unmarshalCtx{}
		in.unmarshalInto(c, pt.Elem(), dst, n, 0)
		if c.firstErr != "" {
			return in.newError(in.ts.Str(c.firstErr))
		}
		return Iface{}
	})
}
