package main

// Contract stubs for what the airgapped machine touches beyond the first DKG step (C02 airgapped half, C04 clauses 1-3,
// C12 later steps). Every stub guarantees what the quoted library behaviour guarantees and nothing more; none of it is
// checked here (trusted base, listed in the evidence of the checks that use it).
//
//  kyber share/dkg/pedersen (dkg.go), honest control flow only as far as dc4bc calls it:
//   * Deals() (dkg.go:277): one Deal{Index: own, Deal: EncryptedDeal} per OTHER participant i, the own deal is processed
//     internally. The encrypted deal carries (under encryption for participant i's long-term key) the share f_own(i) of the
//     dealer's secret polynomial and the dealer's commitments. Symbolic form: EncryptedDeal.Cipher is the plaintext
//     descriptor the C11 stubs read ({commits,status,decrypt_ok,sig_ok}) extended by "to" (the addressee's key) and
//     "share" (the sealed share: vss.sealed(to, share) - only ProcessDeal of the addressee can take the share out).
//   * ProcessDeal (see intrin_kyber_dkg.go) additionally records (dealer -> commitments, share) when the deal is addressed
//     to this participant; a deal sealed for somebody else does not decrypt.
//   * ProcessResponse(resp) (dkg.go:409, vss.go:429,614,652): error for an unknown dealer index, for a dealer whose deal
//     has not been received yet (ErrNoDealBeforeResponse), for a responder index out of bounds, for a second response
//     from the same origin; otherwise the status is recorded.
//   * Certified() (dkg.go:525): every dealer's deal is present, has all n responses, all approvals.
//   * DistKeyShare() (dkg.go:678,693): error unless at least t certified dealers; Commits[k] = sum over certified dealers
//     (in index order; point addition commutes) of their k-th commitment, Share = {I: own index, V: sum of received
//     shares}, PrivatePoly = the own dealer's secret coefficients.
//  kyber share.PubPoly: Info() = (base, commitments), Commit() = commitments[0].
//  kyber sign/tbls.Sign (tbls.go:44): big-endian uint16 index followed by bls.Sign(share.V, msg) = tbls.psig(V, msg).
//  kyber sign/bls.Verify: uninterpreted verdict over (public key, msg, signature).
//  kyber encrypt/ecies: Decrypt(sk, Encrypt(pub(sk), m)) = m; with any other key, or on any other bytes, it fails or
//   yields bytes unrelated to m (modelled: fails).
//  encoding/gob: Decode(Encode(v)) = v for *share.PriShare and [][]byte; anything else does not decode.
//  golang.org/x/crypto/scrypt.Key: function of (password, salt), collision-free (stated assumption).
//  crypto/aes + cipher.NewGCM: Open(k, n, Seal(k, n, p)) = p; Open with another key or on other bytes fails.
//  goleveldb: transactions apply their writes atomically at Commit; an iterator over a prefix visits the entries whose
//   key has that prefix, in key order (keys concrete here).

import (
	"fmt"
	"go/types"
	"sort"
	"strings"

	"golang.org/x/tools/go/ssa"
)

type kDealInfo struct {
	commits []*Term // encodings
	share   *Term   // scalar identity (Str)
	status  *Term   // Bool
}

type sealedVal struct {
	key   *Term  // what it was sealed for (public key encoding / symmetric key bytes)
	nonce *Term  // symmetric only
	plain SliceV // the plaintext value as it was (blob trees kept)
	term  *Term  // scalar identity for sealed shares
}

func (in *Interp) sealTable() map[*Term]*sealedVal {
	t, _ := in.hooks["sealed"].(map[*Term]*sealedVal)
	if t == nil {
		t = map[*Term]*sealedVal{}
		in.hooks["sealed"] = t
	}
	return t
}

func (in *Interp) newScalar(t *Term) Value {
	return Iface{T: types.Typ[types.Int], V: &Opaque{Kind: "kyber.scalar", Data: &kScalar{t: t}}}
}
func (in *Interp) newPointEnc(enc *Term) Value {
	return Iface{T: types.Typ[types.Int], V: &Opaque{Kind: "kyber.point", Data: &kPoint{enc: enc}}}
}

// jsonBytes: a JBytes node holding a byte slice value
func jBytes(b SliceV) *JNode { return &JNode{K: JBytes, Bytes: b} }

func registerAir(P *Program) {
	r := P.reg
	const kb = "github.com/corestario/kyber"
	const ped = kb + "/share/dkg/pedersen"
	const vss = kb + "/share/vss/pedersen"
	genOf := func(in *Interp, v Value) *kGen {
		p, ok := v.(Ptr)
		if !ok || p == nil {
			in.rtPanic("nil *dkg.DistKeyGenerator")
		}
		return (*p).(*Opaque).Data.(*kGen)
	}
	dealerCommit := func(in *Interp, g *kGen, k int) *Term {
		return in.ts.App("dkg.dealer.commit", StrSort, g.reader, in.ts.Int(int64(g.t)), in.ts.Int(int64(k)))
	}
	dealerShare := func(in *Interp, g *kGen, i int) *Term {
		return in.ts.App("dkg.dealer.share", StrSort, g.reader, in.ts.Int(int64(g.t)), in.ts.Int(int64(i)))
	}
	ownDeal := func(in *Interp, g *kGen) {
		if g.deals == nil {
			g.deals = map[int]*kDealInfo{}
		}
		if _, done := g.deals[g.own]; done {
			return
		}
		di := &kDealInfo{share: dealerShare(in, g, g.own), status: in.ts.True()}
		for k := 0; k < g.t; k++ {
			di.commits = append(di.commits, dealerCommit(in, g, k))
		}
		g.deals[g.own] = di
		g.processed[fmt.Sprint(g.own)] = true
		if g.resps == nil {
			g.resps = map[int]map[int]*Term{}
		}
		g.resps[g.own] = map[int]*Term{g.own: in.ts.True()}
	}
	r("(*"+ped+".DistKeyGenerator).Deals", func(in *Interp, caller *frame, fn *ssa.Function, args []Value) Value {
		ts := in.ts
		g := genOf(in, args[0])
		ownDeal(in, g)
		dealT := P.namedType(ped, "Deal")
		encT := P.namedType(vss, "EncryptedDeal")
		m := NewMap()
		for i := 0; i < g.n; i++ {
			if i == g.own {
				continue
			}
			sh := dealerShare(in, g, i)
			sealed := ts.App("vss.sealed", StrSort, g.pks[i], sh)
			in.sealTable()[sealed] = &sealedVal{key: g.pks[i], term: sh}
			var commits []*JNode
			for k := 0; k < g.t; k++ {
				commits = append(commits, jBytes(in.strToBytes(dealerCommit(in, g, k))))
			}
			node := &JNode{K: JObj,
				Keys: []*Term{ts.Str("commits"), ts.Str("status"), ts.Str("decrypt_ok"), ts.Str("sig_ok"), ts.Str("to"), ts.Str("share")},
				Vals: []*JNode{{K: JArr, Elems: commits}, {K: JBool, T: ts.True()}, {K: JBool, T: ts.True()}, {K: JBool, T: ts.True()},
					jBytes(in.strToBytes(g.pks[i])), jBytes(in.strToBytes(sealed))}}
			enc := in.zero(encT).(Struct)
			enc[0] = in.mkBytes([]byte("dh"))
			enc[1] = in.mkBytes([]byte("dhsig"))
			enc[2] = in.mkBytes([]byte("nonce"))
			enc[3] = SliceV{Blob: in.newJSONBlob(node)}
			var ec Value = enc
			d := in.zero(dealT).(Struct)
			d[0] = ts.BV(32, uint64(g.own))
			d[1] = Ptr(&ec)
			d[2] = in.schnorrSig(g)
			var dc Value = d
			in.mapSet(m, types.Typ[types.Int], ts.BV(64, uint64(i)), Ptr(&dc))
		}
		return Tuple{m, Iface{}}
	})
	r("(*"+ped+".DistKeyGenerator).ProcessResponse", func(in *Interp, caller *frame, fn *ssa.Function, args []Value) Value {
		ts := in.ts
		g := genOf(in, args[0])
		fail := func(m string) Value { return Tuple{Ptr(nil), in.newError(ts.Str(m))} }
		rp, _ := args[1].(Ptr)
		if rp == nil {
			in.rtPanic("nil *dkg.Response")
		}
		resp := (*rp).(Struct)
		didx := resp[0].(*Term)
		if !in.branch(nil, nil, ts.BvUlt(didx, ts.BV(32, uint64(g.n)))) {
			return fail("dkg: responses received for unknown dealer")
		}
		dealer := int(in.forkValues(didx, 8))
		ip, _ := resp[1].(Ptr)
		if ip == nil {
			in.rtPanic("nil *vss.Response")
		}
		inner := (*ip).(Struct)
		if _, ok := g.deals[dealer]; !ok {
			return fail("vss: no deal before response")
		}
		ridx := inner[1].(*Term)
		if !in.branch(nil, nil, ts.BvUlt(ridx, ts.BV(32, uint64(g.n)))) {
			return fail("vss: index out of bounds in response")
		}
		responder := int(in.forkValues(ridx, 8))
		if g.resps == nil {
			g.resps = map[int]map[int]*Term{}
		}
		if g.resps[dealer] == nil {
			g.resps[dealer] = map[int]*Term{}
		}
		if _, dup := g.resps[dealer][responder]; dup {
			return fail("vss: already existing response from same origin")
		}
		g.resps[dealer][responder] = inner[2].(*Term)
		return Tuple{Ptr(nil), Iface{}}
	})
	// certified(d): the deal is there, all n responses are there and all approve
	certified := func(in *Interp, g *kGen, d int) *Term {
		if _, ok := g.deals[d]; !ok {
			return in.ts.False()
		}
		c := g.deals[d].status
		if c == nil {
			c = in.ts.True()
		}
		for rsp := 0; rsp < g.n; rsp++ {
			st, ok := g.resps[d][rsp]
			if !ok {
				return in.ts.False()
			}
			c = in.ts.And(c, st)
		}
		return c
	}
	// vss.Aggregator (embedded in vss.Verifier): the verifier object of dealer idx in this participant's generator
	verOf := func(in *Interp, v Value) *kVerifier {
		p, _ := v.(Ptr)
		if p == nil {
			in.rtPanic("nil *vss.Aggregator")
		}
		return (*p).(*Opaque).Data.(*kVerifier)
	}
	// MissingResponses (vss.go:707): indexes of the verifiers whose response to this dealer's deal has not been recorded
	r("(*"+vss+".Aggregator).MissingResponses", func(in *Interp, caller *frame, fn *ssa.Function, args []Value) Value {
		v := verOf(in, args[0])
		var out []Value
		for rsp := 0; rsp < v.g.n; rsp++ {
			if _, ok := v.g.resps[v.idx][rsp]; !ok {
				out = append(out, in.ts.BV(64, uint64(rsp)))
			}
		}
		return SliceV{A: out}
	})
	// DealCertified (vss.go:683, before the timeout): enough approvals, no complaint, no absent response
	r("(*"+vss+".Aggregator).DealCertified", func(in *Interp, caller *frame, fn *ssa.Function, args []Value) Value {
		v := verOf(in, args[0])
		return certified(in, v.g, v.idx)
	})
	r("(*"+ped+".DistKeyGenerator).Certified", func(in *Interp, caller *frame, fn *ssa.Function, args []Value) Value {
		g := genOf(in, args[0])
		c := in.ts.True()
		for d := 0; d < g.n; d++ {
			c = in.ts.And(c, certified(in, g, d))
		}
		return c
	})
	r("(*"+ped+".DistKeyGenerator).DistKeyShare", func(in *Interp, caller *frame, fn *ssa.Function, args []Value) Value {
		ts := in.ts
		g := genOf(in, args[0])
		var qual []int
		for d := 0; d < g.n; d++ {
			if in.branch(nil, nil, certified(in, g, d)) {
				qual = append(qual, d)
			}
		}
		if len(qual) < g.t {
			return Tuple{Ptr(nil), in.newError(ts.Str("dkg: distributed key not certified"))}
		}
		sort.Ints(qual)
		dksT := P.namedType(ped, "DistKeyShare")
		psT := P.namedType(kb+"/share", "PriShare")
		nCommits := len(g.deals[qual[0]].commits)
		var commits []Value
		for k := 0; k < nCommits; k++ {
			var parts []*Term
			for _, d := range qual {
				cs := g.deals[d].commits
				if k < len(cs) {
					parts = append(parts, cs[k])
				} else {
					parts = append(parts, ts.Str("<missing>"))
				}
			}
			commits = append(commits, in.newPointEnc(ts.App("dkg.dist.commit", StrSort, parts...)))
		}
		var shares []*Term
		for _, d := range qual {
			shares = append(shares, g.deals[d].share)
		}
		ps := in.zero(psT).(Struct)
		ps[0] = ts.BV(64, uint64(g.own))
		ps[1] = in.newScalar(ts.App("dkg.dist.share", StrSort, shares...))
		var pc Value = ps
		dks := in.zero(dksT).(Struct)
		dks[0] = SliceV{A: commits}
		dks[1] = Ptr(&pc)
		var priv []Value
		for k := 0; k < g.t; k++ {
			priv = append(priv, in.newScalar(ts.App("dkg.dealer.coeff", StrSort, g.reader, ts.Int(int64(g.t)), ts.Int(int64(k)))))
		}
		dks[2] = SliceV{A: priv}
		var dc Value = dks
		return Tuple{Ptr(&dc), Iface{}}
	})
	dksOf := func(in *Interp, v Value) Struct {
		p, ok := v.(Ptr)
		if !ok || p == nil {
			in.rtPanic("nil *dkg.DistKeyShare")
		}
		return (*p).(Struct)
	}
	r("(*"+ped+".DistKeyShare).Public", func(in *Interp, caller *frame, fn *ssa.Function, args []Value) Value {
		cs := dksOf(in, args[0])[0].(SliceV)
		if len(cs.A) == 0 {
			in.rtPanic("index out of range [0] with length 0 (DistKeyShare.Public)")
		}
		return cs.A[0]
	})
	r("(*"+ped+".DistKeyShare).PriShare", func(in *Interp, caller *frame, fn *ssa.Function, args []Value) Value {
		return dksOf(in, args[0])[1]
	})
	r("(*"+ped+".DistKeyShare).Commitments", func(in *Interp, caller *frame, fn *ssa.Function, args []Value) Value {
		return dksOf(in, args[0])[0]
	})
	polyOf := func(in *Interp, v Value) *kPoly {
		p, ok := v.(Ptr)
		if !ok || p == nil {
			in.rtPanic("nil *share.PubPoly")
		}
		return (*p).(*Opaque).Data.(*kPoly)
	}
	r("(*"+kb+"/share.PubPoly).Info", func(in *Interp, caller *frame, fn *ssa.Function, args []Value) Value {
		poly := polyOf(in, args[0])
		var pts []Value
		for _, c := range poly.commits {
			pts = append(pts, in.newPointEnc(c))
		}
		return Tuple{in.newPointEnc(in.ts.Str("<base>")), SliceV{A: pts}}
	})
	// PubPoly.Equal (share/poly.go): compares the first p.Threshold() commitments only; indexes q's commitments without a
	// length check (a shorter q panics with an index out of range)
	r("(*"+kb+"/share.PubPoly).Equal", func(in *Interp, caller *frame, fn *ssa.Function, args []Value) Value {
		pp, qq := polyOf(in, args[0]), polyOf(in, args[1])
		res := in.ts.True()
		for i := range pp.commits {
			if i >= len(qq.commits) {
				in.rtPanic(fmt.Sprintf("index out of range [%d] with length %d", i, len(qq.commits)))
			}
			res = in.ts.And(res, in.ts.Eq(pp.commits[i], qq.commits[i]))
		}
		return res
	})
	r("(*"+kb+"/share.PubPoly).Commit", func(in *Interp, caller *frame, fn *ssa.Function, args []Value) Value {
		poly := polyOf(in, args[0])
		if len(poly.commits) == 0 {
			in.rtPanic("index out of range [0] with length 0 (PubPoly.Commit)")
		}
		return in.newPointEnc(poly.commits[0])
	})
	opaqueMethods["kyber.scalar.UnmarshalBinary"] = func(in *Interp, op *Opaque, args []Value) Value {
		s := in.sliceStr(args[0].(SliceV))
		if s.op == OApp && s.s == "kyber.scalar.enc" {
			op.Data.(*kScalar).t = s.args[0]
			return Iface{}
		}
		if in.branch(nil, nil, in.ts.App("kyber.sc.decodes", BoolSort, s)) {
			op.Data.(*kScalar).t = in.ts.App("kyber.scalar.dec", StrSort, s)
			return Iface{}
		}
		return in.newError(in.ts.Str("invalid scalar encoding"))
	}
	opaqueMethods["kyber.scalar.Equal"] = func(in *Interp, op *Opaque, args []Value) Value {
		o, ok := args[0].(Iface).V.(*Opaque)
		if !ok {
			return in.ts.False()
		}
		a, b := op.Data.(*kScalar).t, o.Data.(*kScalar).t
		if a == nil || b == nil {
			return in.ts.Bool(a == nil && b == nil)
		}
		return in.ts.Eq(a, b)
	}
	r(kb+"/sign/tbls.Sign", func(in *Interp, caller *frame, fn *ssa.Function, args []Value) Value {
		ts := in.ts
		pp, _ := args[1].(Ptr)
		if pp == nil {
			in.rtPanic("nil *share.PriShare")
		}
		ps := (*pp).(Struct)
		idx := ts.Extract(15, 0, ps[0].(*Term))
		vi, ok := ps[1].(Iface)
		if !ok || vi.T == nil {
			in.rtPanic("nil kyber.Scalar in PriShare")
		}
		v := vi.V.(*Opaque).Data.(*kScalar).t
		if v == nil {
			v = ts.Str("<zero scalar>")
		}
		msg := in.sliceStr(args[2].(SliceV))
		sig := ts.App("tbls.psig", StrSort, v, msg)
		full := ts.SConcat(ts.SUnit(ts.Extract(15, 8, idx)), ts.SUnit(ts.Extract(7, 0, idx)), sig)
		in.addPC(ts.Eq(ts.SLen(sig), ts.Int(96)))
		return Tuple{SliceV{Blob: in.strBlob(full)}, Iface{}}
	})
	r(kb+"/sign/bls.Verify", func(in *Interp, caller *frame, fn *ssa.Function, args []Value) Value {
		pt := args[1].(Iface).V.(*Opaque).Data.(*kPoint)
		enc := pt.enc
		if enc == nil {
			enc = in.ts.Str("<null>")
		}
		ok := in.ts.App("bls.verify", BoolSort, enc, in.sliceStr(args[2].(SliceV)), in.sliceStr(args[3].(SliceV)))
		if in.branch(nil, nil, ok) {
			return Iface{}
		}
		return in.newError(in.ts.Str("bls: invalid signature"))
	})

	// ---- ecies ----
	r(kb+"/encrypt/ecies.Encrypt", func(in *Interp, caller *frame, fn *ssa.Function, args []Value) Value {
		pi, ok := args[1].(Iface)
		if !ok || pi.T == nil {
			in.rtPanic("nil kyber.Point (ecies.Encrypt)")
		}
		pk := pi.V.(*Opaque).Data.(*kPoint).enc
		if pk == nil {
			pk = in.ts.Str("<null>")
		}
		data := args[2].(SliceV)
		in.opq++
		// the ephemeral key is fresh per call: two encryptions of the same data differ
		ct := in.ts.App("ecies.enc", StrSort, pk, in.sliceStr(data), in.ts.Int(int64(in.opq)))
		in.sealTable()[ct] = &sealedVal{key: pk, plain: data}
		// ephemeral point + AES-GCM ciphertext with its 16-byte tag
		in.addPC(in.ts.ILe(in.ts.IAdd(in.ts.SLen(in.sliceStr(data)), in.ts.Int(17)), in.ts.SLen(ct)))
		return Tuple{SliceV{Blob: in.strBlob(ct)}, Iface{}}
	})
	r(kb+"/encrypt/ecies.Decrypt", func(in *Interp, caller *frame, fn *ssa.Function, args []Value) Value {
		ts := in.ts
		si, ok := args[1].(Iface)
		if !ok || si.T == nil {
			in.rtPanic("nil kyber.Scalar (ecies.Decrypt)")
		}
		sk := si.V.(*Opaque).Data.(*kScalar).t
		if sk == nil {
			sk = ts.Str("<zero scalar>")
		}
		ct := in.sliceStr(args[2].(SliceV))
		fail := Tuple{SliceV{}, in.newError(ts.Str("ecies: decryption failed"))}
		if sv, ok := in.sealTable()[ct]; ok && sv.nonce == nil {
			in.injUFs["kyber.pub"] = true
			if in.branch(nil, nil, ts.Eq(sv.key, ts.App("kyber.pub", StrSort, sk))) {
				return Tuple{sv.plain, Iface{}}
			}
			return fail
		}
		return fail
	})

	// ---- gob (only the two shapes dc4bc encodes) ----
	r("encoding/gob.NewEncoder", func(in *Interp, caller *frame, fn *ssa.Function, args []Value) Value {
		var cell Value = &Opaque{Kind: "gob.Encoder", Data: args[0]}
		return Ptr(&cell)
	})
	r("encoding/gob.NewDecoder", func(in *Interp, caller *frame, fn *ssa.Function, args []Value) Value {
		var cell Value = &Opaque{Kind: "gob.Decoder", Data: args[0]}
		return Ptr(&cell)
	})
	bufOfIface := func(in *Interp, v Value) *bufObj {
		i, ok := v.(Iface)
		if !ok || i.T == nil {
			panic(unsupported("gob: nil writer/reader"))
		}
		p, ok := i.V.(Ptr)
		if !ok || p == nil {
			panic(unsupported("gob: writer/reader is not a *bytes.Buffer"))
		}
		if op, ok := (*p).(*Opaque); ok && op.Kind == "bytes.Buffer" {
			return op.Data.(*bufObj)
		}
		if _, isStruct := (*p).(Struct); isStruct {
			b := &bufObj{}
			*p = &Opaque{Kind: "bytes.Buffer", Data: b}
			return b
		}
		panic(unsupported("gob: writer/reader is not a *bytes.Buffer"))
	}
	r("(*encoding/gob.Encoder).Encode", func(in *Interp, caller *frame, fn *ssa.Function, args []Value) Value {
		ts := in.ts
		op := (*args[0].(Ptr)).(*Opaque)
		buf := bufOfIface(in, op.Data)
		v := args[1].(Iface)
		if v.T == nil {
			return in.newError(ts.Str("gob: cannot encode nil value"))
		}
		if pt, ok := v.T.(*types.Pointer); ok {
			if n, ok := pt.Elem().(*types.Named); ok && n.Obj().Name() == "PriShare" {
				p := v.V.(Ptr)
				if p == nil {
					return in.newError(ts.Str("gob: cannot encode nil pointer of type *share.PriShare"))
				}
				ps := (*p).(Struct)
				var sc *Term
				if vi, ok := ps[1].(Iface); ok && vi.T != nil {
					sc = vi.V.(*Opaque).Data.(*kScalar).t
				}
				if sc == nil {
					sc = ts.Str("<zero scalar>")
				}
				in.injUFs["gob.prishare"] = true
				enc := ts.App("gob.prishare", StrSort, ps[0].(*Term), sc)
				buf.parts = append(buf.parts, SliceV{Blob: in.strBlob(enc)})
				return Iface{}
			}
		}
		if sl, ok := v.V.(SliceV); ok {
			// [][]byte: an injective image of the element strings
			var parts []*Term
			for _, e := range sl.A {
				parts = append(parts, in.sliceStr(e.(SliceV)))
			}
			buf.parts = append(buf.parts, SliceV{Blob: in.strBlob(ts.App(fmt.Sprintf("gob.bytesslice%d", len(parts)), StrSort, parts...))})
			return Iface{}
		}
		panic(unsupported("gob.Encode of " + v.T.String()))
	})
	r("(*encoding/gob.Decoder).Decode", func(in *Interp, caller *frame, fn *ssa.Function, args []Value) Value {
		ts := in.ts
		op := (*args[0].(Ptr)).(*Opaque)
		buf := bufOfIface(in, op.Data)
		data := in.sliceStr(in.bufBytes(buf))
		buf.parts = nil
		v := args[1].(Iface)
		if v.T != nil {
			if pt, ok := v.T.(*types.Pointer); ok {
				if n, ok := pt.Elem().(*types.Named); ok && n.Obj().Name() == "PriShare" {
					if data.op == OApp && data.s == "gob.prishare" {
						p := v.V.(Ptr)
						ps := (*p).(Struct)
						ps[0] = data.args[0]
						ps[1] = in.newScalar(data.args[1])
						*p = ps
						return Iface{}
					}
					return in.newError(ts.Str("gob: unexpected EOF / type mismatch"))
				}
			}
		}
		panic(unsupported("gob.Decode into " + fmt.Sprint(v.T)))
	})

	// ---- scrypt / AES-GCM ----
	r("golang.org/x/crypto/scrypt.Key", func(in *Interp, caller *frame, fn *ssa.Function, args []Value) Value {
		kl, _ := cint(args[5])
		if kl != 32 {
			panic(unsupported("scrypt.Key with a key length other than 32"))
		}
		in.injUFs["scrypt32"] = true
		return Tuple{SliceV{Blob: in.strBlob(in.ts.App("scrypt32", StrSort, in.sliceStr(args[0].(SliceV)), in.sliceStr(args[1].(SliceV))))}, Iface{}}
	})
	r("crypto/aes.NewCipher", func(in *Interp, caller *frame, fn *ssa.Function, args []Value) Value {
		k := args[0].(SliceV)
		if k.Blob == nil && len(k.A) != 16 && len(k.A) != 24 && len(k.A) != 32 {
			return Tuple{Iface{}, in.newError(in.ts.Str("crypto/aes: invalid key size"))}
		}
		if k.Blob != nil {
			if l := in.ts.SLen(in.sliceStr(k)); !l.IsConst() || (l.i != 16 && l.i != 24 && l.i != 32) {
				panic(unsupported("aes.NewCipher with a key of unknown length"))
			}
		}
		return Tuple{Iface{T: types.Typ[types.Int], V: &Opaque{Kind: "aes.block", Data: in.sliceStr(k)}}, Iface{}}
	})
	r("crypto/cipher.NewGCM", func(in *Interp, caller *frame, fn *ssa.Function, args []Value) Value {
		b := args[0].(Iface).V.(*Opaque)
		return Tuple{Iface{T: types.Typ[types.Int], V: &Opaque{Kind: "gcm", Data: b.Data}}, Iface{}}
	})
	opaqueMethods["gcm.NonceSize"] = func(in *Interp, op *Opaque, args []Value) Value { return in.ts.BV(64, 12) }
	opaqueMethods["gcm.Overhead"] = func(in *Interp, op *Opaque, args []Value) Value { return in.ts.BV(64, 16) }
	opaqueMethods["gcm.Seal"] = func(in *Interp, op *Opaque, args []Value) Value {
		key := op.Data.(*Term)
		dst, nonce, plain := args[0].(SliceV), args[1].(SliceV), args[2].(SliceV)
		n := in.sliceStr(nonce)
		ct := in.ts.App("gcm.seal", StrSort, key, n, in.sliceStr(plain))
		in.sealTable()[ct] = &sealedVal{key: key, nonce: n, plain: plain}
		return SliceV{Blob: in.strBlob(in.ts.SConcat(in.sliceStr(dst), ct))}
	}
	opaqueMethods["gcm.Open"] = func(in *Interp, op *Opaque, args []Value) Value {
		ts := in.ts
		key := op.Data.(*Term)
		n := in.sliceStr(args[1].(SliceV))
		ct := in.sliceStr(args[2].(SliceV))
		fail := Tuple{SliceV{}, in.newError(ts.Str("cipher: message authentication failed"))}
		if sv, ok := in.sealTable()[ct]; ok && sv.nonce != nil {
			if in.branch(nil, nil, ts.And(ts.Eq(sv.key, key), ts.Eq(sv.nonce, n))) {
				return Tuple{sv.plain, Iface{}}
			}
			return fail
		}
		return fail
	}
	readRandom := func(in *Interp, b SliceV) {
		in.opq++
		for i := range b.A {
			b.A[i] = in.ts.FreshSym(fmt.Sprintf("rand%d[%d]", in.opq, i), BVSort(8))
		}
	}
	r("crypto/rand.Read", func(in *Interp, caller *frame, fn *ssa.Function, args []Value) Value {
		b := args[0].(SliceV)
		readRandom(in, b)
		return Tuple{in.ts.BV(64, uint64(len(b.A))), Iface{}}
	})
	r("io.ReadFull", func(in *Interp, caller *frame, fn *ssa.Function, args []Value) Value {
		// only ever called on crypto/rand.Reader in dc4bc
		b := args[1].(SliceV)
		readRandom(in, b)
		return Tuple{in.ts.BV(64, uint64(len(b.A))), Iface{}}
	})

	// ---- LevelDB transactions and prefix iterators ----
	const ldb = "github.com/syndtr/goleveldb/leveldb"
	type txOp struct {
		k *Term
		v SliceV
	}
	type txObj struct {
		db  *dbObj
		ops []txOp
	}
	r("(*"+ldb+".DB).OpenTransaction", func(in *Interp, caller *frame, fn *ssa.Function, args []Value) Value {
		p, ok := args[0].(Ptr)
		if !ok || p == nil {
			in.rtPanic("nil *leveldb.DB")
		}
		var cell Value = &Opaque{Kind: "leveldb.Tx", Data: &txObj{db: (*p).(*Opaque).Data.(*dbObj)}}
		return Tuple{Ptr(&cell), Iface{}}
	})
	txOf := func(v Value) *txObj { return (*v.(Ptr)).(*Opaque).Data.(*txObj) }
	r("(*"+ldb+".Transaction).Put", func(in *Interp, caller *frame, fn *ssa.Function, args []Value) Value {
		tx := txOf(args[0])
		v := args[2].(SliceV)
		if v.Blob == nil {
			v = SliceV{A: append([]Value{}, v.A...)}
		}
		tx.ops = append(tx.ops, txOp{k: in.sliceStr(args[1].(SliceV)), v: v})
		return Iface{}
	})
	r("(*"+ldb+".Transaction).Commit", func(in *Interp, caller *frame, fn *ssa.Function, args []Value) Value {
		tx := txOf(args[0])
		for _, o := range tx.ops {
			in.mapSet(tx.db.m, types.Typ[types.String], o.k, o.v)
		}
		tx.ops = nil
		in.effect("db.Commit")
		return Iface{}
	})
	r("(*"+ldb+".Transaction).Discard", func(in *Interp, caller *frame, fn *ssa.Function, args []Value) Value {
		txOf(args[0]).ops = nil
		return nil
	})
	r(ldb+"/util.BytesPrefix", func(in *Interp, caller *frame, fn *ssa.Function, args []Value) Value {
		var cell Value = &Opaque{Kind: "leveldb.Range", Data: in.sliceStr(args[0].(SliceV))}
		return Ptr(&cell)
	})
	// goleveldb reuses one buffer for Value(): a slice returned by Value() is only valid until the next call of Next()
	// (iterator.Iterator doc: "The caller should not modify the contents of the returned slice, and its contents may change
	// on the next call to any 'seeks method'"). Modelled for abstract values: all slices handed out share one content cell.
	type iterObj struct {
		ents []*mapEntry
		pos  int
		buf  *Blob
	}
	r("(*"+ldb+".DB).NewIterator", func(in *Interp, caller *frame, fn *ssa.Function, args []Value) Value {
		p, ok := args[0].(Ptr)
		if !ok || p == nil {
			in.rtPanic("nil *leveldb.DB")
		}
		db := (*p).(*Opaque).Data.(*dbObj)
		prefix := ""
		if rp, ok := args[1].(Ptr); ok && rp != nil {
			t := (*rp).(*Opaque).Data.(*Term)
			if !t.IsConst() {
				panic(unsupported("leveldb iterator with a symbolic prefix"))
			}
			prefix = t.s
		}
		it := &iterObj{pos: -1}
		for _, e := range db.m.Entries {
			k, ok := e.K.(*Term)
			if !ok || !k.IsConst() {
				panic(unsupported("leveldb iterator over symbolic keys"))
			}
			if strings.HasPrefix(k.s, prefix) {
				it.ents = append(it.ents, e)
			}
		}
		sort.SliceStable(it.ents, func(i, j int) bool { return it.ents[i].K.(*Term).s < it.ents[j].K.(*Term).s })
		return Iface{T: types.Typ[types.Int], V: &Opaque{Kind: "leveldb.Iter", Data: it}}
	})
	opaqueMethods["leveldb.Iter.Next"] = func(in *Interp, op *Opaque, args []Value) Value {
		it := op.Data.(*iterObj)
		it.pos++
		if it.pos < len(it.ents) && it.buf != nil {
			if v, ok := it.ents[it.pos].V.(SliceV); ok && v.Blob != nil {
				*it.buf = *v.Blob // the shared buffer now holds the next value
			}
		}
		return in.ts.Bool(it.pos < len(it.ents))
	}
	opaqueMethods["leveldb.Iter.Key"] = func(in *Interp, op *Opaque, args []Value) Value {
		it := op.Data.(*iterObj)
		return in.strToBytes(it.ents[it.pos].K.(*Term))
	}
	opaqueMethods["leveldb.Iter.Value"] = func(in *Interp, op *Opaque, args []Value) Value {
		it := op.Data.(*iterObj)
		if v, ok := it.ents[it.pos].V.(SliceV); ok && v.Blob != nil {
			if it.buf == nil {
				it.buf = &Blob{}
			}
			*it.buf = *v.Blob
			return SliceV{Blob: it.buf}
		}
		return it.ents[it.pos].V
	}
	opaqueMethods["leveldb.Iter.Release"] = func(in *Interp, op *Opaque, args []Value) Value { return nil }
	opaqueMethods["leveldb.Iter.Error"] = func(in *Interp, op *Opaque, args []Value) Value { return Iface{} }
}
