package main

// Contract stubs for github.com/corestario/kyber v1.6.0 (hot-node side). Each stub guarantees what the quoted library
// code guarantees and nothing more; bit-level curve arithmetic is outside the technique (DESIGN Appendix D).
//
//  * bls12381.NewBLS12381Suite(seed): opaque suite.
//  * Point.UnmarshalBinary(b): may fail on any b; otherwise the point dec(b) with MarshalBinary(dec(b)) = b.
//  * share.NewPubPoly(g, nil, commits): the polynomial identified by its commitment encodings.
//  * tbls.Recover (sign/tbls/tbls.go:79, share/poly.go:412-470): scans sigs in order; a share shorter than 2 bytes or
//    one that does not verify under poly.Eval(idx) => error; stops after t accepted shares; fewer than t distinct indices
//    => error; the result is Sig(poly,msg) (unique BLS signature under the group key) iff t >= #commitments(poly),
//    otherwise an unconstrained value.
//  * validity of a share: uninterpreted predicate tbls.valid(poly, idx, msg, value).

import (
	"fmt"
	"go/types"

	"golang.org/x/tools/go/ssa"
)

type kSuite struct {
	seed  SliceV
	draws int // scalars picked so far from this suite's (continuing) random stream
}
type kPoint struct{ enc *Term } // Str: encoding; nil = null point
type kPoly struct {
	commits []*Term // encodings
}

func (in *Interp) polyStr(p *kPoly) *Term { return in.ts.SConcat(p.commits...) }

func registerKyber(P *Program) {
	r := P.reg
	const kb = "github.com/corestario/kyber"
	r(kb+"/pairing/bls12381.NewBLS12381Suite", func(in *Interp, caller *frame, fn *ssa.Function, args []Value) Value {
		return Iface{T: types.Typ[types.Int], V: &Opaque{Kind: "kyber.suite", Data: &kSuite{seed: args[0].(SliceV)}}}
	})
	newPoint := func(in *Interp) Value {
		return Iface{T: types.Typ[types.Int], V: &Opaque{Kind: "kyber.point", Data: &kPoint{}}}
	}
	opaqueMethods["kyber.suite.Point"] = func(in *Interp, op *Opaque, args []Value) Value { return newPoint(in) }
	opaqueMethods["kyber.suite.G1"] = func(in *Interp, op *Opaque, args []Value) Value {
		return Iface{T: types.Typ[types.Int], V: &Opaque{Kind: "kyber.group", Data: "G1"}}
	}
	opaqueMethods["kyber.suite.G2"] = func(in *Interp, op *Opaque, args []Value) Value {
		return Iface{T: types.Typ[types.Int], V: &Opaque{Kind: "kyber.group", Data: "G2"}}
	}
	opaqueMethods["kyber.group.Point"] = func(in *Interp, op *Opaque, args []Value) Value { return newPoint(in) }
	opaqueMethods["kyber.point.UnmarshalBinary"] = func(in *Interp, op *Opaque, args []Value) Value {
		b := args[0].(SliceV)
		s := in.sliceStr(b)
		if s.op == OApp && (s.s == "kyber.pub" || s.s == "dkg.dealer.commit" || s.s == "dkg.dist.commit") {
			op.Data.(*kPoint).enc = s // the encoding of a point always decodes (dec(enc(p)) = p)
			return Iface{}
		}
		if in.branch(nil, nil, in.ts.App("kyber.pt.decodes", BoolSort, s)) {
			op.Data.(*kPoint).enc = s
			return Iface{}
		}
		return in.newError(in.ts.Str("invalid point encoding"))
	}
	opaqueMethods["kyber.point.MarshalBinary"] = func(in *Interp, op *Opaque, args []Value) Value {
		p := op.Data.(*kPoint)
		if p.enc == nil {
			return Tuple{in.mkBytes(make([]byte, 96)), Iface{}}
		}
		if !p.enc.IsConst() {
			in.addPC(in.ts.ILe(in.ts.Int(1), in.ts.SLen(p.enc))) // a marshalled point is not empty (48 or 96 bytes)
		}
		return Tuple{in.strToBytes(p.enc), Iface{}}
	}
	r(kb+"/share.NewPubPoly", func(in *Interp, caller *frame, fn *ssa.Function, args []Value) Value {
		poly := &kPoly{}
		for _, c := range args[2].(SliceV).A {
			pt := c.(Iface).V.(*Opaque).Data.(*kPoint)
			if pt.enc == nil {
				poly.commits = append(poly.commits, in.ts.Str("<null>"))
			} else {
				poly.commits = append(poly.commits, pt.enc)
			}
		}
		var cell Value = &Opaque{Kind: "kyber.pubpoly", Data: poly}
		return Ptr(&cell)
	})
	polyOf := func(in *Interp, v Value) *kPoly {
		p, ok := v.(Ptr)
		if !ok || p == nil {
			in.rtPanic("nil *share.PubPoly")
		}
		return (*p).(*Opaque).Data.(*kPoly)
	}
	r("(*"+kb+"/share.PubPoly).Threshold", func(in *Interp, caller *frame, fn *ssa.Function, args []Value) Value {
		return in.ts.BV(64, uint64(len(polyOf(in, args[0]).commits)))
	})
	r(kb+"/sign/tbls.Recover", func(in *Interp, caller *frame, fn *ssa.Function, args []Value) Value {
		ts := in.ts
		poly := polyOf(in, args[1])
		msg := in.sliceStr(args[2].(SliceV))
		sigs := args[3].(SliceV).A
		t := in.concreteInt(args[4].(*Term), "tbls.Recover t")
		polyS := in.polyStr(poly)
		fail := func(m string) Value { return Tuple{SliceV{}, in.newError(ts.Str(m))} }
		var idxs []*Term
		for _, sv := range sigs {
			if len(idxs) >= t && t > 0 {
				break
			}
			sh := sv.(SliceV)
			var idx, val *Term
			if sh.Blob != nil {
				l := in.lenTerm(sh)
				if !in.branch(nil, nil, ts.BvSle(ts.BV(64, 2), l)) {
					return fail("unexpected EOF")
				}
				full := in.sliceStr(sh)
				idx = ts.SSubstr(full, ts.Int(0), ts.Int(2))
				val = ts.SSubstr(full, ts.Int(2), ts.ISub(ts.SLen(full), ts.Int(2)))
			} else {
				if len(sh.A) < 2 {
					return fail("unexpected EOF")
				}
				idx = in.sliceStr(SliceV{A: sh.A[:2]})
				val = in.sliceStr(SliceV{A: sh.A[2:]})
			}
			valid := ts.App("tbls.valid", BoolSort, polyS, idx, msg, val)
			if !in.branch(nil, nil, valid) {
				return fail("bls: invalid signature")
			}
			idxs = append(idxs, idx)
			if len(idxs) >= t {
				break
			}
		}
		if len(idxs) < t {
			return fail("share: not enough good public shares to reconstruct secret commitment")
		}
		distinct := ts.True()
		for i := 0; i < len(idxs); i++ {
			for j := i + 1; j < len(idxs); j++ {
				distinct = ts.And(distinct, ts.Not(ts.Eq(idxs[i], idxs[j])))
			}
		}
		if !in.branch(nil, nil, distinct) {
			return fail("share: not enough good public shares to reconstruct secret commitment")
		}
		if t >= len(poly.commits) && t > 0 {
			return Tuple{in.ufBytes("bls.sig", 96, polyS, msg), Iface{}}
		}
		in.opq++
		junk := make([]Value, 96)
		for i := range junk {
			junk[i] = ts.FreshSym(fmt.Sprintf("tbls.junk%d[%d]", in.opq, i), BVSort(8))
		}
		return Tuple{SliceV{A: junk}, Iface{}}
	})
}
