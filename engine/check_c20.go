package main

import (
	"fmt"
	"strconv"
)

const typesPkg = "client/types"

func c20Fields(np, nm int) []string {
	fs := []string{"dkgid", "threshold"}
	for i := 0; i < np; i++ {
		is := strconv.Itoa(i)
		fs = append(fs, "p"+is+".newkey", "p"+is+".oldkey", "p"+is+".dkgkey", "p"+is+".name")
	}
	for i := 0; i < nm; i++ {
		is := strconv.Itoa(i)
		fs = append(fs, "m"+is+".data", "m"+is+".signature", "m"+is+".recipient", "m"+is+".event", "m"+is+".sender", "m"+is+".round", "m"+is+".offset")
	}
	return fs
}

func c20HashJobs(cr *CheckRun) []Job {
	opts := defaultOpts()
	maxp, maxm := 2, 2
	if cr.Tier == "thorough" {
		maxp, maxm = 3, 3
	}
	var jobs []Job
	for np := 1; np <= maxp; np++ {
		for nm := 1; nm <= maxm; nm++ {
			if cr.Tier != "thorough" && np != nm {
				continue
			}
			for _, f := range c20Fields(np, nm) {
				jobs = append(jobs, Job{Pkg: typesPkg, Fn: "VF_C20_HashSensitive", Opts: opts,
					Tag: fmt.Sprintf("np=%d nm=%d field=%s", np, nm, f), Case: "field=" + f,
					Params: map[string]string{"np": strconv.Itoa(np), "nm": strconv.Itoa(nm), "field": f}})
			}
		}
	}
	cr.bounds["reinit_file"] = fmt.Sprintf("participants 1..%d, messages 1..%d; every byte/string field an unbounded symbolic sequence; threshold and offsets symbolic ints", maxp, maxm)
	return jobs
}
