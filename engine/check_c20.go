package main

import (
	"fmt"
	"strconv"
)

const typesPkg = "client/types"

func c20Fields(np, nm int) []string {
	fs := []string{"dkgid", "threshold"}
	for i := 0; i < np; i++ {
		is := strconv.Itoa(i)
		fs = append(fs, "p"+is+".newkey", "p"+is+".oldkey", "p"+is+".dkgkey", "p"+is+".name")
	}
	for i := 0; i < nm; i++ {
		is := strconv.Itoa(i)
		fs = append(fs, "m"+is+".data", "m"+is+".signature", "m"+is+".recipient", "m"+is+".event", "m"+is+".sender", "m"+is+".round", "m"+is+".offset")
	}
	return fs
}

func c20HashJobs(cr *CheckRun) []Job {
	opts := defaultOpts()
	maxp, maxm := 2, 2
	if cr.Tier == "thorough" {
		maxp, maxm = 3, 3
	}
	var jobs []Job
	for np := 1; np <= maxp; np++ {
		for nm := 1; nm <= maxm; nm++ {
			if cr.Tier != "thorough" && np != nm {
				continue
			}
			for _, f := range c20Fields(np, nm) {
				jobs = append(jobs, Job{Pkg: typesPkg, Fn: "VF_C20_HashSensitive", Opts: opts,
					Tag: fmt.Sprintf("np=%d nm=%d field=%s", np, nm, f), Case: "field=" + f,
					Params: map[string]string{"np": strconv.Itoa(np), "nm": strconv.Itoa(nm), "field": f}})
			}
		}
	}
	cr.bounds["reinit_file"] = fmt.Sprintf("participants 1..%d, messages 1..%d; every byte/string field an unbounded symbolic sequence; threshold and offsets symbolic ints", maxp, maxm)
	return jobs
}

func init() {
	checkDefs["C20"] = &checkDef{level: "other", pkgs: []string{typesPkg, nodePkg, airPkg}, run: func(cr *CheckRun) {
		jobs := c20HashJobs(cr)
		opts := defaultOpts()
		maxm := 3
		if cr.Tier == "thorough" {
			maxm = 4
		}
		for nm := 1; nm <= maxm; nm++ {
			opts := opts
			if nm >= 4 {
				opts.MaxPaths = 200000 // three participants x four messages: ~10^5 feasible logs
			}
			jobs = append(jobs, Job{Pkg: nodePkg, Fn: "VF_C20_Adapt", Opts: opts, Tag: fmt.Sprintf("adapt nm=%d", nm), Case: "adapt",
				Params: map[string]string{"nm": strconv.Itoa(nm), "tag": "c20"}})
		}
		// hot-node half of the reinitialisation itself: a node reinitialised from a dump of the board ends where a node that
		// followed the board live ends
		lens := []int{3, 5}
		if cr.Tier == "thorough" {
			lens = []int{1, 2, 3, 4, 5}
		}
		for _, ids := range []string{"empty", "distinct"} {
			for _, l := range lens {
				jobs = append(jobs, Job{Pkg: nodePkg, Fn: "VF_C20_Replay", Opts: opts, Tag: fmt.Sprintf("replay ids=%s len=%d", ids, l), Case: "replay",
					Params: map[string]string{"ids": ids, "len": strconv.Itoa(l), "blob_axioms": "1", "blob_distinct": "1", "clock_window_s": "3600", "tag": fmt.Sprintf("c20r_%s_%d", ids, l)}})
			}
		}
		res := cr.Pool.Run(jobs)
		cr.absorb(jobs, res)
		// airgapped half: a machine on an empty database, given the reinit operation built from the operation log, ends
		// with the same keyring and answers with the round's public polynomial
		runCeremony(cr, []Job{ceremonyJob("c20air", 2, 2, map[string]string{"reinit": "1", "noleak": "1"}, "reinit_dkg on a fresh database of machine 0")}, []map[string]int{{}})
		cr.samples = append(cr.samples, map[string]interface{}{"hash_fields_checked": c20Fields(2, 2)})
		cr.explanation = "Hash: CalcStartReInitDKGMessageHash executed from SSA on two reinit files that differ in exactly one field (every field in turn), byte strings as unbounded SMT sequences, SHA-1 uninterpreted and assumed collision-free; determinism by re-hashing. Adaptation: GetAdaptedReDKG/createMessage on symbolic 0.1.4-style logs against a reference walk. Replay: a node that receives the reinit message built from a log (opening proposal, both confirmations, both commitments; n=2; symbolic timestamps and commitment bytes; message ids all empty, as a Kafka board and the airgapped machine produce them, or pairwise distinct) ends in the same public round state as a node that followed the log live, and the reinit operation carries exactly the operations the live node produced. Airgapped half (contract level, VF_Air_Ceremony reinit=1): after a full ceremony the operation log of machine 0 is handed as a reinit_dkg operation to a machine with the same mnemonic on an empty database; it replays exactly the request operations, ends with the same keyring (share and polynomial) and answers with that polynomial; run natively with real kyber on every run. Bit-identity of kyber's outputs is its determinism contract."
		cr.bounds["adapt_log"] = fmt.Sprintf("1..%d messages, three participants (any sender, any other recipient), each message a deal or a commit confirmation with symbolic fields", maxm)
		cr.bounds["outside"] = "multi-field edits (concatenation without separators collides by construction; the statement quantifies over single-field edits); handleReinitDKG on the airgapped machine (kyber determinism); logs beyond the commitments phase; log written more than an hour before the run or a run longer than an hour (deadlines are days)"
		cr.assume = append(cr.assume, "SHA-1 collision-free (stated assumption)", "decimal formatting injective", "uuid fresh")
		cr.trusted = append(cr.trusted, "gosx SSA->SMT executor", "z3 4.8.12 sequence theory")
	}}
}
