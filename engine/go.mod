module gosx

go 1.23

require golang.org/x/tools v0.29.0

require (
	golang.org/x/mod v0.22.0 // indirect
	golang.org/x/sync v0.10.0 // indirect
)

require (
	github.com/tyler-smith/go-bip39 v1.1.0
	golang.org/x/crypto v0.3.0
)
