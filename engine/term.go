package main

// Hash-consed SMT terms with constant folding and SMT-LIB2 printing.

import (
	"fmt"
	"math/big"
	"sort"
	"strconv"
	"strings"
)

type SortKind uint8

const (
	SBool SortKind = iota
	SBV
	SInt
	SStr // (Seq (_ BitVec 8))
)

type Sort struct {
	K SortKind
	W int // bit width for SBV
}

func (s Sort) String() string {
	switch s.K {
	case SBool:
		return "Bool"
	case SBV:
		return fmt.Sprintf("(_ BitVec %d)", s.W)
	case SInt:
		return "Int"
	case SStr:
		return "(Seq (_ BitVec 8))"
	}
	return "?"
}

var (
	BoolSort = Sort{K: SBool}
	IntSort  = Sort{K: SInt}
	StrSort  = Sort{K: SStr}
)

func BVSort(w int) Sort { return Sort{K: SBV, W: w} }

type Op uint8

const (
	OConst Op = iota // constant (bool/bv/int/str)
	OSym             // free symbol
	OApp             // uninterpreted function application (name)
	ONot
	OAnd
	OOr
	OEq
	OIte
	// bit-vectors
	OBvAdd
	OBvSub
	OBvMul
	OBvUDiv
	OBvSDiv
	OBvURem
	OBvSRem
	OBvAnd
	OBvOr
	OBvXor
	OBvNot
	OBvNeg
	OBvShl
	OBvLshr
	OBvAshr
	OBvUlt
	OBvUle
	OBvSlt
	OBvSle
	OExtract // ival = hi<<16|lo
	OConcat
	OZext // W in sort
	OSext
	// ints
	OIAdd
	OISub
	OILt
	OILe
	OIDiv // floor division by a positive constant
	OBv2Int  // unsigned
	OInt2Bv  // sort.W
	OSBv2Int // signed bv to int
	// strings (Seq BV8)
	OSLen
	OSConcat
	OSUnit
	OSAt     // seq.nth -> BV8
	OSSubstr // seq.extract s off len
	OSPrefix // prefixof a b : a is prefix of b
	OSSuffix
	OSContains
)

type Term struct {
	id   int
	op   Op
	sort Sort
	args []*Term
	u    uint64 // bv const value / bool (0/1) / extract bounds
	i    int64  // int const
	s    string // string const / symbol name / UF name
}

func (t *Term) Sort() Sort    { return t.sort }
func (t *Term) IsConst() bool { return t.op == OConst }
func (t *Term) ID() int       { return t.id }

// TermStore hash-conses terms. One per interpreter (not thread-safe).
type TermStore struct {
	tab   map[string]*Term
	next  int
	syms  map[string]*Term   // declared free symbols
	order []string           // declaration order of symbols
	ufs   map[string]*UFDecl // declared UFs
	uford []string
	big   map[string]bool // string symbols whose length is abstracted by the UF len! (never materialised by the solver)
}

type UFDecl struct {
	Name string
	Args []Sort
	Res  Sort
}

func NewTermStore() *TermStore {
	return &TermStore{tab: map[string]*Term{}, syms: map[string]*Term{}, ufs: map[string]*UFDecl{}, big: map[string]bool{}}
}

func (ts *TermStore) mk(op Op, sort Sort, u uint64, i int64, s string, args ...*Term) *Term {
	var sb strings.Builder
	sb.WriteString(strconv.Itoa(int(op)))
	sb.WriteByte('|')
	sb.WriteString(strconv.Itoa(int(sort.K)))
	sb.WriteByte(':')
	sb.WriteString(strconv.Itoa(sort.W))
	sb.WriteByte('|')
	sb.WriteString(strconv.FormatUint(u, 16))
	sb.WriteByte('|')
	sb.WriteString(strconv.FormatInt(i, 16))
	sb.WriteByte('|')
	sb.WriteString(strconv.Itoa(len(s)))
	sb.WriteByte(':')
	sb.WriteString(s)
	for _, a := range args {
		sb.WriteByte(',')
		sb.WriteString(strconv.Itoa(a.id))
	}
	k := sb.String()
	if t, ok := ts.tab[k]; ok {
		return t
	}
	ts.next++
	t := &Term{id: ts.next, op: op, sort: sort, args: args, u: u, i: i, s: s}
	ts.tab[k] = t
	return t
}

// ---- constants ----

func (ts *TermStore) Bool(b bool) *Term {
	if b {
		return ts.mk(OConst, BoolSort, 1, 0, "")
	}
	return ts.mk(OConst, BoolSort, 0, 0, "")
}
func (ts *TermStore) True() *Term  { return ts.Bool(true) }
func (ts *TermStore) False() *Term { return ts.Bool(false) }

func mask(w int) uint64 {
	if w >= 64 {
		return ^uint64(0)
	}
	return (uint64(1) << uint(w)) - 1
}

func (ts *TermStore) BV(w int, v uint64) *Term {
	return ts.mk(OConst, BVSort(w), v&mask(w), 0, "")
}
func (ts *TermStore) Int(v int64) *Term  { return ts.mk(OConst, IntSort, 0, v, "") }
func (ts *TermStore) Str(s string) *Term { return ts.mk(OConst, StrSort, 0, 0, s) }

func (t *Term) BoolVal() bool  { return t.u != 0 }
func (t *Term) BVVal() uint64  { return t.u }
func (t *Term) IntVal() int64  { return t.i }
func (t *Term) StrVal() string { return t.s }

// signed value of a bv const
func (t *Term) SVal() int64 {
	w := t.sort.W
	v := t.u
	if w < 64 && v&(1<<uint(w-1)) != 0 {
		v |= ^mask(w)
	}
	return int64(v)
}

// ---- symbols / UFs ----

func (ts *TermStore) Sym(name string, sort Sort) *Term {
	if t, ok := ts.syms[name]; ok {
		if t.sort != sort {
			panic(fmt.Sprintf("symbol %s redeclared with different sort", name))
		}
		return t
	}
	t := ts.mk(OSym, sort, 0, 0, name)
	ts.syms[name] = t
	ts.order = append(ts.order, name)
	return t
}

// FreshSym makes a symbol with a unique suffix if name is taken.
func (ts *TermStore) FreshSym(name string, sort Sort) *Term {
	n := name
	for i := 1; ; i++ {
		if _, ok := ts.syms[n]; !ok {
			break
		}
		n = fmt.Sprintf("%s#%d", name, i)
	}
	return ts.Sym(n, sort)
}

func (ts *TermStore) App(name string, res Sort, args ...*Term) *Term {
	d, ok := ts.ufs[name]
	if !ok {
		d = &UFDecl{Name: name, Res: res}
		for _, a := range args {
			d.Args = append(d.Args, a.sort)
		}
		ts.ufs[name] = d
		ts.uford = append(ts.uford, name)
	} else {
		if len(d.Args) != len(args) || d.Res != res {
			panic("UF " + name + " arity/sort mismatch")
		}
		for i, a := range args {
			if d.Args[i] != a.sort {
				panic("UF " + name + " arg sort mismatch")
			}
		}
	}
	return ts.mk(OApp, res, 0, 0, name, args...)
}

// ---- booleans ----

func (ts *TermStore) Not(a *Term) *Term {
	if a.IsConst() {
		return ts.Bool(!a.BoolVal())
	}
	if a.op == ONot {
		return a.args[0]
	}
	return ts.mk(ONot, BoolSort, 0, 0, "", a)
}

func (ts *TermStore) And(xs ...*Term) *Term {
	var out []*Term
	seen := map[int]bool{}
	for _, x := range xs {
		if x.IsConst() {
			if !x.BoolVal() {
				return ts.False()
			}
			continue
		}
		if x.op == OAnd {
			for _, y := range x.args {
				if !seen[y.id] {
					seen[y.id] = true
					out = append(out, y)
				}
			}
			continue
		}
		if !seen[x.id] {
			seen[x.id] = true
			out = append(out, x)
		}
	}
	for _, x := range out {
		if x.op == ONot && seen[x.args[0].id] {
			return ts.False()
		}
	}
	if len(out) == 0 {
		return ts.True()
	}
	if len(out) == 1 {
		return out[0]
	}
	return ts.mk(OAnd, BoolSort, 0, 0, "", out...)
}

func (ts *TermStore) Or(xs ...*Term) *Term {
	var out []*Term
	seen := map[int]bool{}
	for _, x := range xs {
		if x.IsConst() {
			if x.BoolVal() {
				return ts.True()
			}
			continue
		}
		if x.op == OOr {
			for _, y := range x.args {
				if !seen[y.id] {
					seen[y.id] = true
					out = append(out, y)
				}
			}
			continue
		}
		if !seen[x.id] {
			seen[x.id] = true
			out = append(out, x)
		}
	}
	for _, x := range out {
		if x.op == ONot && seen[x.args[0].id] {
			return ts.True()
		}
	}
	if len(out) == 0 {
		return ts.False()
	}
	if len(out) == 1 {
		return out[0]
	}
	return ts.mk(OOr, BoolSort, 0, 0, "", out...)
}

func (ts *TermStore) Implies(a, b *Term) *Term { return ts.Or(ts.Not(a), b) }

func (ts *TermStore) Eq(a, b *Term) *Term {
	if a.sort != b.sort {
		panic(fmt.Sprintf("Eq sort mismatch %v vs %v", a.sort, b.sort))
	}
	if a == b {
		return ts.True()
	}
	if a.IsConst() && b.IsConst() {
		switch a.sort.K {
		case SBool, SBV:
			return ts.Bool(a.u == b.u)
		case SInt:
			return ts.Bool(a.i == b.i)
		case SStr:
			return ts.Bool(a.s == b.s)
		}
	}
	if a.sort.K == SBool {
		if a.IsConst() {
			if a.BoolVal() {
				return b
			}
			return ts.Not(b)
		}
		if b.IsConst() {
			if b.BoolVal() {
				return a
			}
			return ts.Not(a)
		}
	}
	if a.sort.K == SStr && (a.IsConst() || b.IsConst()) {
		// a ciphertext / signature / key encoding produced by a modelled library never equals a literal of the program
		// (negligible probability; stated assumption of the checks that use these stubs)
		if o := a; true {
			if a.IsConst() {
				o = b
			}
			if o.op == OApp && neverLiteral[o.s] {
				return ts.False()
			}
		}
		// a string of known length differs from a constant of another length
		if la, lb := ts.SLen(a), ts.SLen(b); la.IsConst() && lb.IsConst() && la.i != lb.i {
			return ts.False()
		}
	}
	if a.sort.K == SBV && a.sort.W == 64 && !(a.IsConst() && b.IsConst()) {
		if ia, ok := ts.lenLike(a); ok {
			if ib, ok := ts.lenLike(b); ok {
				return ts.Eq(ia, ib)
			}
		}
	}
	if a.id > b.id {
		a, b = b, a
	}
	return ts.mk(OEq, BoolSort, 0, 0, "", a, b)
}

var neverLiteral = map[string]bool{"ecies.enc": true, "gcm.seal": true, "vss.sealed": true, "tbls.psig": true, "gob.prishare": true,
	"scrypt32": true, "kyber.scalar.enc": true, "schnorr.R": true, "schnorr.s": true}

func (ts *TermStore) Ite(c, a, b *Term) *Term {
	if c.IsConst() {
		if c.BoolVal() {
			return a
		}
		return b
	}
	if a == b {
		return a
	}
	if a.sort != b.sort {
		panic("Ite sort mismatch")
	}
	if a.sort.K == SBool {
		if a.IsConst() && b.IsConst() {
			if a.BoolVal() {
				return c
			}
			return ts.Not(c)
		}
	}
	return ts.mk(OIte, a.sort, 0, 0, "", c, a, b)
}

// ---- bit-vectors ----

func sext64(v uint64, w int) int64 {
	if w < 64 && v&(1<<uint(w-1)) != 0 {
		v |= ^mask(w)
	}
	return int64(v)
}

func (ts *TermStore) bvBin(op Op, a, b *Term) *Term {
	if a.sort != b.sort || a.sort.K != SBV {
		panic(fmt.Sprintf("bvBin sort mismatch %v %v (op %d)", a.sort, b.sort, op))
	}
	w := a.sort.W
	if a.IsConst() && b.IsConst() {
		x, y := a.u, b.u
		switch op {
		case OBvAdd:
			return ts.BV(w, x+y)
		case OBvSub:
			return ts.BV(w, x-y)
		case OBvMul:
			return ts.BV(w, x*y)
		case OBvAnd:
			return ts.BV(w, x&y)
		case OBvOr:
			return ts.BV(w, x|y)
		case OBvXor:
			return ts.BV(w, x^y)
		case OBvUDiv:
			if y != 0 {
				return ts.BV(w, x/y)
			}
		case OBvURem:
			if y != 0 {
				return ts.BV(w, x%y)
			}
		case OBvSDiv:
			if y != 0 {
				sx, sy := sext64(x, w), sext64(y, w)
				if !(sy == -1 && sx == -1<<63) {
					return ts.BV(w, uint64(sx/sy))
				}
				return ts.BV(w, uint64(sx))
			}
		case OBvSRem:
			if y != 0 {
				sx, sy := sext64(x, w), sext64(y, w)
				if sy == -1 {
					return ts.BV(w, 0)
				}
				return ts.BV(w, uint64(sx%sy))
			}
		case OBvShl:
			if y >= uint64(w) {
				return ts.BV(w, 0)
			}
			return ts.BV(w, x<<y)
		case OBvLshr:
			if y >= uint64(w) {
				return ts.BV(w, 0)
			}
			return ts.BV(w, x>>y)
		case OBvAshr:
			sx := sext64(x, w)
			if y >= uint64(w) {
				y = uint64(w - 1)
			}
			return ts.BV(w, uint64(sx>>y))
		}
	}
	// identities
	switch op {
	case OBvAdd:
		if a.IsConst() && a.u == 0 {
			return b
		}
		if b.IsConst() && b.u == 0 {
			return a
		}
	case OBvSub:
		if b.IsConst() && b.u == 0 {
			return a
		}
		if a == b {
			return ts.BV(w, 0)
		}
	case OBvAnd:
		if a.IsConst() && a.u == 0 || b.IsConst() && b.u == 0 {
			return ts.BV(w, 0)
		}
		if a.IsConst() && a.u == mask(w) {
			return b
		}
		if b.IsConst() && b.u == mask(w) {
			return a
		}
	case OBvOr, OBvXor:
		if a.IsConst() && a.u == 0 {
			return b
		}
		if b.IsConst() && b.u == 0 {
			return a
		}
	case OBvShl, OBvLshr, OBvAshr:
		if b.IsConst() && b.u == 0 {
			return a
		}
	case OBvMul:
		if a.IsConst() && a.u == 1 {
			return b
		}
		if b.IsConst() && b.u == 1 {
			return a
		}
	}
	return ts.mk(op, a.sort, 0, 0, "", a, b)
}

func (ts *TermStore) BvAdd(a, b *Term) *Term {
	if !(a.IsConst() && b.IsConst()) {
		if ia, ok := ts.lenLike(a); ok {
			if ib, ok := ts.lenLike(b); ok {
				return ts.Int2Bv(64, ts.IAdd(ia, ib))
			}
		}
	}
	return ts.bvBin(OBvAdd, a, b)
}
func (ts *TermStore) BvSub(a, b *Term) *Term  { return ts.bvBin(OBvSub, a, b) }
func (ts *TermStore) BvMul(a, b *Term) *Term  { return ts.bvBin(OBvMul, a, b) }
func (ts *TermStore) BvAnd(a, b *Term) *Term  { return ts.bvBin(OBvAnd, a, b) }
func (ts *TermStore) BvOr(a, b *Term) *Term   { return ts.bvBin(OBvOr, a, b) }
func (ts *TermStore) BvXor(a, b *Term) *Term  { return ts.bvBin(OBvXor, a, b) }
func (ts *TermStore) BvShl(a, b *Term) *Term  { return ts.bvBin(OBvShl, a, b) }
func (ts *TermStore) BvLshr(a, b *Term) *Term { return ts.bvBin(OBvLshr, a, b) }
func (ts *TermStore) BvAshr(a, b *Term) *Term { return ts.bvBin(OBvAshr, a, b) }
func (ts *TermStore) BvUDiv(a, b *Term) *Term { return ts.bvBin(OBvUDiv, a, b) }
func (ts *TermStore) BvSDiv(a, b *Term) *Term { return ts.bvBin(OBvSDiv, a, b) }
func (ts *TermStore) BvURem(a, b *Term) *Term { return ts.bvBin(OBvURem, a, b) }
func (ts *TermStore) BvSRem(a, b *Term) *Term { return ts.bvBin(OBvSRem, a, b) }

func (ts *TermStore) BvNot(a *Term) *Term {
	if a.IsConst() {
		return ts.BV(a.sort.W, ^a.u)
	}
	return ts.mk(OBvNot, a.sort, 0, 0, "", a)
}
func (ts *TermStore) BvNeg(a *Term) *Term {
	if a.IsConst() {
		return ts.BV(a.sort.W, -a.u)
	}
	return ts.mk(OBvNeg, a.sort, 0, 0, "", a)
}

// nonNegSmallInt: Int terms known to be small and non-negative (sequence lengths and their sums).
func nonNegSmallInt(t *Term) bool {
	switch t.op {
	case OSLen:
		return true
	case OApp:
		return t.s == "len!"
	case OConst:
		return t.sort.K == SInt && t.i >= 0 && t.i < 1<<40
	case OIAdd:
		return nonNegSmallInt(t.args[0]) && nonNegSmallInt(t.args[1])
	}
	return false
}

// lenLike maps a bit-vector term that denotes a small non-negative integer to that Int term.
func (ts *TermStore) lenLike(t *Term) (*Term, bool) {
	if t.sort.K != SBV || t.sort.W != 64 {
		return nil, false
	}
	if t.IsConst() {
		if v := t.SVal(); v >= 0 && v < 1<<40 {
			return ts.Int(v), true
		}
		return nil, false
	}
	if t.op == OInt2Bv && nonNegSmallInt(t.args[0]) {
		return t.args[0], true
	}
	return nil, false
}

func (ts *TermStore) bvCmp(op Op, a, b *Term) *Term {
	if a.sort != b.sort || a.sort.K != SBV {
		panic(fmt.Sprintf("bvCmp sort mismatch %v %v", a.sort, b.sort))
	}
	w := a.sort.W
	if !(a.IsConst() && b.IsConst()) {
		if ia, ok := ts.lenLike(a); ok {
			if ib, ok := ts.lenLike(b); ok {
				switch op {
				case OBvUlt, OBvSlt:
					return ts.ILt(ia, ib)
				case OBvUle, OBvSle:
					return ts.ILe(ia, ib)
				}
			}
		}
	}
	if a.IsConst() && b.IsConst() {
		switch op {
		case OBvUlt:
			return ts.Bool(a.u < b.u)
		case OBvUle:
			return ts.Bool(a.u <= b.u)
		case OBvSlt:
			return ts.Bool(sext64(a.u, w) < sext64(b.u, w))
		case OBvSle:
			return ts.Bool(sext64(a.u, w) <= sext64(b.u, w))
		}
	}
	if a == b {
		return ts.Bool(op == OBvUle || op == OBvSle)
	}
	return ts.mk(op, BoolSort, 0, 0, "", a, b)
}
func (ts *TermStore) BvUlt(a, b *Term) *Term { return ts.bvCmp(OBvUlt, a, b) }
func (ts *TermStore) BvUle(a, b *Term) *Term { return ts.bvCmp(OBvUle, a, b) }
func (ts *TermStore) BvSlt(a, b *Term) *Term { return ts.bvCmp(OBvSlt, a, b) }
func (ts *TermStore) BvSle(a, b *Term) *Term { return ts.bvCmp(OBvSle, a, b) }

func (ts *TermStore) Extract(hi, lo int, a *Term) *Term {
	w := hi - lo + 1
	if lo == 0 && w == a.sort.W {
		return a
	}
	if a.IsConst() {
		return ts.BV(w, a.u>>uint(lo))
	}
	// extract of concat / zext simplifications
	if a.op == OConcat {
		lw := a.args[1].sort.W
		if hi < lw {
			return ts.Extract(hi, lo, a.args[1])
		}
		if lo >= lw {
			return ts.Extract(hi-lw, lo-lw, a.args[0])
		}
	}
	if a.op == OZext || a.op == OSext {
		iw := a.args[0].sort.W
		if hi < iw {
			return ts.Extract(hi, lo, a.args[0])
		}
		if a.op == OZext && lo >= iw {
			return ts.BV(w, 0)
		}
	}
	if a.op == OExtract {
		ilo := int(a.u & 0xffff)
		return ts.Extract(hi+ilo, lo+ilo, a.args[0])
	}
	return ts.mk(OExtract, BVSort(w), uint64(hi)<<16|uint64(lo), 0, "", a)
}

func (ts *TermStore) Concat(hi, lo *Term) *Term {
	w := hi.sort.W + lo.sort.W
	if hi.IsConst() && lo.IsConst() && w <= 64 {
		return ts.BV(w, hi.u<<uint(lo.sort.W)|lo.u)
	}
	// concat(extract(h,m+1,x), extract(m,l,x)) = extract(h,l,x)
	if hi.op == OExtract && lo.op == OExtract && hi.args[0] == lo.args[0] {
		hlo := int(hi.u & 0xffff)
		lhi := int(lo.u >> 16)
		if hlo == lhi+1 {
			return ts.Extract(int(hi.u>>16), int(lo.u&0xffff), hi.args[0])
		}
	}
	return ts.mk(OConcat, BVSort(w), 0, 0, "", hi, lo)
}

func (ts *TermStore) Zext(w int, a *Term) *Term {
	if a.sort.W == w {
		return a
	}
	if a.sort.W > w {
		return ts.Extract(w-1, 0, a)
	}
	if a.IsConst() {
		return ts.BV(w, a.u)
	}
	return ts.mk(OZext, BVSort(w), 0, 0, "", a)
}
func (ts *TermStore) Sext(w int, a *Term) *Term {
	if a.sort.W == w {
		return a
	}
	if a.sort.W > w {
		return ts.Extract(w-1, 0, a)
	}
	if a.IsConst() {
		return ts.BV(w, uint64(sext64(a.u, a.sort.W)))
	}
	return ts.mk(OSext, BVSort(w), 0, 0, "", a)
}

// ---- ints ----

func (ts *TermStore) IAdd(a, b *Term) *Term {
	if a.IsConst() && b.IsConst() {
		return ts.Int(a.i + b.i)
	}
	if a.IsConst() && a.i == 0 {
		return b
	}
	if b.IsConst() && b.i == 0 {
		return a
	}
	return ts.mk(OIAdd, IntSort, 0, 0, "", a, b)
}
func (ts *TermStore) ISub(a, b *Term) *Term {
	if a.IsConst() && b.IsConst() {
		return ts.Int(a.i - b.i)
	}
	if b.IsConst() && b.i == 0 {
		return a
	}
	return ts.mk(OISub, IntSort, 0, 0, "", a, b)
}
func (ts *TermStore) ILt(a, b *Term) *Term {
	if a.IsConst() && b.IsConst() {
		return ts.Bool(a.i < b.i)
	}
	if a == b {
		return ts.False()
	}
	return ts.mk(OILt, BoolSort, 0, 0, "", a, b)
}
func (ts *TermStore) ILe(a, b *Term) *Term {
	if a.IsConst() && b.IsConst() {
		return ts.Bool(a.i <= b.i)
	}
	if a == b {
		return ts.True()
	}
	return ts.mk(OILe, BoolSort, 0, 0, "", a, b)
}
func (ts *TermStore) IDiv(a, b *Term) *Term { // b: positive constant (SMT-LIB div = floor for positive divisors)
	if a.IsConst() && b.IsConst() && b.i > 0 {
		q := a.i / b.i
		if a.i%b.i != 0 && a.i < 0 {
			q--
		}
		return ts.Int(q)
	}
	return ts.mk(OIDiv, IntSort, 0, 0, "", a, b)
}
func (ts *TermStore) Bv2Int(a *Term) *Term { // unsigned
	if a.IsConst() {
		return ts.Int(int64(a.u))
	}
	if a.op == OInt2Bv && nonNegSmallInt(a.args[0]) {
		return a.args[0] // lengths are small non-negative
	}
	return ts.mk(OBv2Int, IntSort, 0, 0, "", a)
}
func (ts *TermStore) SBv2Int(a *Term) *Term { // signed
	if a.IsConst() {
		return ts.Int(a.SVal())
	}
	if a.op == OInt2Bv && nonNegSmallInt(a.args[0]) {
		return a.args[0]
	}
	return ts.mk(OSBv2Int, IntSort, 0, 0, "", a)
}
func (ts *TermStore) Int2Bv(w int, a *Term) *Term {
	if a.IsConst() {
		return ts.BV(w, uint64(a.i))
	}
	if (a.op == OSBv2Int || a.op == OBv2Int) && a.args[0].sort.W == w {
		return a.args[0]
	}
	return ts.mk(OInt2Bv, BVSort(w), 0, 0, "", a)
}

// ---- strings ----

func (ts *TermStore) SLen(a *Term) *Term {
	if a.IsConst() {
		return ts.Int(int64(len(a.s)))
	}
	if a.op == OSConcat {
		r := ts.Int(0)
		for _, x := range a.args {
			r = ts.IAdd(r, ts.SLen(x))
		}
		return r
	}
	if a.op == OSUnit {
		return ts.Int(1)
	}
	if a.op == OSym && ts.big[a.s] {
		return ts.App("len!", IntSort, a)
	}
	if a.op == OApp {
		// results of modelled library functions with a known length
		switch a.s {
		case "ed25519.sign":
			return ts.Int(64)
		case "uuidstr":
			return ts.Int(36)
		case "kyber.scalar.enc", "scrypt32":
			return ts.Int(32) // a marshalled BLS12-381 scalar; a 32-byte derived key
		case "bv2str":
			return ts.Int(int64(a.args[0].sort.W / 8))
		case "schnorr.R":
			return ts.Int(48) // a marshalled G1 point
		case "schnorr.s":
			return ts.Int(32)
		case "gcm.seal":
			return ts.IAdd(ts.SLen(a.args[2]), ts.Int(16)) // plaintext + tag
		case "hex":
			l := ts.SLen(a.args[0])
			return ts.IAdd(l, l)
		}
		if a.sort.K == SStr {
			return ts.App("len!", IntSort, a)
		}
	}
	return ts.mk(OSLen, IntSort, 0, 0, "", a)
}
func (ts *TermStore) SConcat(xs ...*Term) *Term {
	var out []*Term
	for _, x := range xs {
		if x.op == OSConcat {
			for _, y := range x.args {
				out = appendStr(ts, out, y)
			}
			continue
		}
		out = appendStr(ts, out, x)
	}
	if len(out) == 0 {
		return ts.Str("")
	}
	if len(out) == 1 {
		return out[0]
	}
	return ts.mk(OSConcat, StrSort, 0, 0, "", out...)
}
func appendStr(ts *TermStore, out []*Term, x *Term) []*Term {
	if x.IsConst() {
		if x.s == "" {
			return out
		}
		if n := len(out); n > 0 && out[n-1].IsConst() {
			out[n-1] = ts.Str(out[n-1].s + x.s)
			return out
		}
	}
	return append(out, x)
}
func (ts *TermStore) SUnit(b *Term) *Term {
	if b.IsConst() {
		return ts.Str(string([]byte{byte(b.u)}))
	}
	return ts.mk(OSUnit, StrSort, 0, 0, "", b)
}
func (ts *TermStore) SAt(s, i *Term) *Term { // i : Int
	if s.IsConst() && i.IsConst() && i.i >= 0 && i.i < int64(len(s.s)) {
		return ts.BV(8, uint64(s.s[i.i]))
	}
	return ts.mk(OSAt, BVSort(8), 0, 0, "", s, i)
}
func (ts *TermStore) SSubstr(s, off, n *Term) *Term {
	if s.IsConst() && off.IsConst() && n.IsConst() {
		o, l := off.i, n.i
		if o >= 0 && l >= 0 && o+l <= int64(len(s.s)) {
			return ts.Str(s.s[o : o+l])
		}
	}
	return ts.mk(OSSubstr, StrSort, 0, 0, "", s, off, n)
}
func (ts *TermStore) SPrefix(p, s *Term) *Term {
	if p.IsConst() && s.IsConst() {
		return ts.Bool(strings.HasPrefix(s.s, p.s))
	}
	return ts.mk(OSPrefix, BoolSort, 0, 0, "", p, s)
}
func (ts *TermStore) SSuffix(p, s *Term) *Term {
	if p.IsConst() && s.IsConst() {
		return ts.Bool(strings.HasSuffix(s.s, p.s))
	}
	return ts.mk(OSSuffix, BoolSort, 0, 0, "", p, s)
}
func (ts *TermStore) SContains(s, sub *Term) *Term {
	if sub.IsConst() && s.IsConst() {
		return ts.Bool(strings.Contains(s.s, sub.s))
	}
	return ts.mk(OSContains, BoolSort, 0, 0, "", s, sub)
}

// ---- printing ----

func smtSymName(n string) string { return "|" + strings.ReplaceAll(n, "|", "!") + "|" }

func strLit(s string) string {
	if s == "" {
		return "(as seq.empty (Seq (_ BitVec 8)))"
	}
	if len(s) == 1 {
		return fmt.Sprintf("(seq.unit #x%02x)", s[0])
	}
	var sb strings.Builder
	sb.WriteString("(seq.++")
	for i := 0; i < len(s); i++ {
		fmt.Fprintf(&sb, " (seq.unit #x%02x)", s[i])
	}
	sb.WriteString(")")
	return sb.String()
}

var opNames = map[Op]string{
	ONot: "not", OAnd: "and", OOr: "or", OEq: "=", OIte: "ite",
	OBvAdd: "bvadd", OBvSub: "bvsub", OBvMul: "bvmul", OBvUDiv: "bvudiv", OBvSDiv: "bvsdiv",
	OBvURem: "bvurem", OBvSRem: "bvsrem", OBvAnd: "bvand", OBvOr: "bvor", OBvXor: "bvxor",
	OBvNot: "bvnot", OBvNeg: "bvneg", OBvShl: "bvshl", OBvLshr: "bvlshr", OBvAshr: "bvashr",
	OBvUlt: "bvult", OBvUle: "bvule", OBvSlt: "bvslt", OBvSle: "bvsle", OConcat: "concat",
	OIAdd: "+", OISub: "-", OILt: "<", OILe: "<=", OIDiv: "div", OBv2Int: "bv2nat",
	OSLen: "seq.len", OSConcat: "seq.++", OSUnit: "seq.unit", OSAt: "seq.nth", OSSubstr: "seq.extract",
	OSPrefix: "seq.prefixof", OSSuffix: "seq.suffixof", OSContains: "seq.contains",
}

// printer prints a term DAG; subterms referenced more than once are let-bound.
type printer struct {
	refs  map[int]int
	names map[int]string
	order []*Term
}

func bvLit(w int, v uint64) string {
	if w%4 == 0 {
		return fmt.Sprintf("#x%0*x", w/4, v)
	}
	return fmt.Sprintf("#b%0*b", w, v)
}

func (p *printer) count(t *Term) {
	p.refs[t.id]++
	if p.refs[t.id] > 1 {
		return
	}
	for _, a := range t.args {
		p.count(a)
	}
	// post-order: children first
	p.order = append(p.order, t)
}

func (p *printer) ref(t *Term) string {
	if n, ok := p.names[t.id]; ok {
		return n
	}
	return p.def(t)
}

func (p *printer) def(t *Term) string {
	var s string
	switch t.op {
	case OConst:
		switch t.sort.K {
		case SBool:
			if t.u != 0 {
				s = "true"
			} else {
				s = "false"
			}
		case SBV:
			s = bvLit(t.sort.W, t.u)
		case SInt:
			if t.i < 0 {
				s = fmt.Sprintf("(- %s)", new(big.Int).Neg(big.NewInt(t.i)).String())
			} else {
				s = strconv.FormatInt(t.i, 10)
			}
		case SStr:
			s = strLit(t.s)
		}
	case OSym:
		s = smtSymName(t.s)
	case OApp:
		if len(t.args) == 0 {
			s = smtSymName(t.s)
		} else {
			var sb strings.Builder
			sb.WriteString("(" + smtSymName(t.s))
			for _, a := range t.args {
				sb.WriteString(" " + p.ref(a))
			}
			sb.WriteString(")")
			s = sb.String()
		}
	case OExtract:
		s = fmt.Sprintf("((_ extract %d %d) %s)", t.u>>16, t.u&0xffff, p.ref(t.args[0]))
	case OZext:
		s = fmt.Sprintf("((_ zero_extend %d) %s)", t.sort.W-t.args[0].sort.W, p.ref(t.args[0]))
	case OSext:
		s = fmt.Sprintf("((_ sign_extend %d) %s)", t.sort.W-t.args[0].sort.W, p.ref(t.args[0]))
	case OInt2Bv:
		s = fmt.Sprintf("((_ int2bv %d) %s)", t.sort.W, p.ref(t.args[0]))
	case OSBv2Int:
		a := p.ref(t.args[0])
		w := t.args[0].sort.W
		pow := new(big.Int).Lsh(big.NewInt(1), uint(w))
		s = fmt.Sprintf("(ite (bvslt %s %s) (- (bv2nat %s) %s) (bv2nat %s))", a, bvLit(w, 0), a, pow.String(), a)
	default:
		name, ok := opNames[t.op]
		if !ok {
			panic(fmt.Sprintf("print: unknown op %d", t.op))
		}
		var sb strings.Builder
		sb.WriteString("(" + name)
		for _, a := range t.args {
			sb.WriteString(" " + p.ref(a))
		}
		sb.WriteString(")")
		s = sb.String()
	}
	return s
}

func (ts *TermStore) Print(t *Term) string {
	p := &printer{refs: map[int]int{}, names: map[int]string{}}
	p.count(t)
	var sb strings.Builder
	nlet := 0
	for _, n := range p.order {
		if n == t || len(n.args) == 0 || p.refs[n.id] < 2 {
			continue
		}
		d := p.def(n)
		name := fmt.Sprintf("?t%d", n.id)
		fmt.Fprintf(&sb, "(let ((%s %s)) ", name, d)
		p.names[n.id] = name
		nlet++
	}
	sb.WriteString(p.def(t))
	for i := 0; i < nlet; i++ {
		sb.WriteByte(')')
	}
	return sb.String()
}

// free symbols and UFs used by a term (transitively)
func collect(t *Term, seen map[int]bool, syms map[string]*Term, ufs map[string]bool) {
	if seen[t.id] {
		return
	}
	seen[t.id] = true
	if t.op == OSym {
		syms[t.s] = t
	}
	if t.op == OApp {
		ufs[t.s] = true
	}
	for _, a := range t.args {
		collect(a, seen, syms, ufs)
	}
}

func sortedKeys[V any](m map[string]V) []string {
	ks := make([]string, 0, len(m))
	for k := range m {
		ks = append(ks, k)
	}
	sort.Strings(ks)
	return ks
}

// StrLt: lexicographic (bytewise) a < b, exact on the first strLtDepth positions; pairs that agree on all of them and are both
// longer are ordered by the uninterpreted predicate str.lt.tail (an over-approximation: any relation).
const strLtDepth = 4

func (ts *TermStore) StrLt(a, b *Term) *Term {
	if a.IsConst() && b.IsConst() {
		return ts.Bool(a.s < b.s)
	}
	la, lb := ts.SLen(a), ts.SLen(b)
	acc := ts.App("str.lt.tail", BoolSort, a, b)
	for i := strLtDepth - 1; i >= 0; i-- {
		ii := ts.Int(int64(i))
		ca, cb := ts.SAt(a, ii), ts.SAt(b, ii)
		inner := ts.Ite(ts.BvUlt(ca, cb), ts.True(), ts.Ite(ts.BvUlt(cb, ca), ts.False(), acc))
		acc = ts.Ite(ts.ILe(la, ii), ts.ILt(ii, lb), ts.Ite(ts.ILe(lb, ii), ts.False(), inner))
	}
	return acc
}
