package main

// time.Time is abstracted to one Int term (ns since the Unix epoch). time.Time{} is a fixed sentinel far
// below every real timestamp (real symbolic timestamps are constrained to (-2^61, 2^61)).

import (
	"strconv"
	"time"

	"golang.org/x/tools/go/ssa"
)

const (
	realTimeLo int64 = -(1 << 61)
	realTimeHi int64 = 1 << 61
)

func (in *Interp) now() *Term {
	in.nowCnt++
	t := in.ts.FreshSym("time.Now", IntSort)
	if in.lastNow != nil {
		in.addPC(in.ts.ILe(in.lastNow, t))
	} else {
		in.addPC(in.ts.ILt(in.ts.Int(realTimeLo), t))
	}
	in.addPC(in.ts.ILt(t, in.ts.Int(realTimeHi)))
	// param clock_window_s: the whole run takes at most that many seconds of wall-clock time (every instant the clock
	// returns lies within the window after the first one)
	if w, ok := in.params["clock_window_s"]; ok {
		if in.firstNow == nil {
			in.firstNow = t
		} else if secs, err := strconv.ParseInt(w, 10, 64); err == nil {
			in.addPC(in.ts.ILe(t, in.ts.IAdd(in.firstNow, in.ts.Int(secs*1000000000))))
		}
	}
	in.lastNow = t
	return t
}

func registerTime(P *Program) {
	r := P.reg
	tv := func(v Value) *Term { return v.(TimeV).T }
	r("time.Now", func(in *Interp, caller *frame, fn *ssa.Function, args []Value) Value { return TimeV{in.now()} })
	r("(time.Time).Add", func(in *Interp, caller *frame, fn *ssa.Function, args []Value) Value {
		return TimeV{in.ts.IAdd(tv(args[0]), in.ts.SBv2Int(args[1].(*Term)))}
	})
	r("(time.Time).Sub", func(in *Interp, caller *frame, fn *ssa.Function, args []Value) Value {
		return in.ts.Int2Bv(64, in.ts.ISub(tv(args[0]), tv(args[1])))
	})
	r("time.Since", func(in *Interp, caller *frame, fn *ssa.Function, args []Value) Value {
		return in.ts.Int2Bv(64, in.ts.ISub(in.now(), tv(args[0])))
	})
	r("(time.Time).Before", func(in *Interp, caller *frame, fn *ssa.Function, args []Value) Value {
		return in.ts.ILt(tv(args[0]), tv(args[1]))
	})
	r("(time.Time).After", func(in *Interp, caller *frame, fn *ssa.Function, args []Value) Value {
		return in.ts.ILt(tv(args[1]), tv(args[0]))
	})
	r("(time.Time).Equal", func(in *Interp, caller *frame, fn *ssa.Function, args []Value) Value {
		return in.ts.Eq(tv(args[0]), tv(args[1]))
	})
	r("(time.Time).IsZero", func(in *Interp, caller *frame, fn *ssa.Function, args []Value) Value {
		return in.ts.Eq(tv(args[0]), in.ts.Int(zeroTimeNs))
	})
	r("(time.Time).UnixNano", func(in *Interp, caller *frame, fn *ssa.Function, args []Value) Value {
		return in.ts.Int2Bv(64, tv(args[0]))
	})
	r("(time.Time).Unix", func(in *Interp, caller *frame, fn *ssa.Function, args []Value) Value {
		t := tv(args[0])
		if t.IsConst() {
			return in.ts.BV(64, uint64(time.Unix(0, t.i).Unix()))
		}
		return in.ts.Int2Bv(64, in.ts.IDiv(t, in.ts.Int(1000000000)))
	})
	r("(time.Time).UnixMilli", func(in *Interp, caller *frame, fn *ssa.Function, args []Value) Value {
		return in.ts.Int2Bv(64, in.ts.IDiv(tv(args[0]), in.ts.Int(1000000)))
	})
	r("time.Until", func(in *Interp, caller *frame, fn *ssa.Function, args []Value) Value {
		return in.ts.Int2Bv(64, in.ts.ISub(tv(args[0]), in.now()))
	})
	r("(time.Time).UTC", func(in *Interp, caller *frame, fn *ssa.Function, args []Value) Value { return args[0] })
	r("(time.Time).Local", func(in *Interp, caller *frame, fn *ssa.Function, args []Value) Value { return args[0] })
	r("(time.Time).String", func(in *Interp, caller *frame, fn *ssa.Function, args []Value) Value {
		return in.ts.App("fmttime", StrSort, tv(args[0]))
	})
	r("(time.Time).Format", func(in *Interp, caller *frame, fn *ssa.Function, args []Value) Value {
		return in.ts.App("fmttime", StrSort, tv(args[0]))
	})
	r("time.Unix", func(in *Interp, caller *frame, fn *ssa.Function, args []Value) Value {
		s, ok1 := cint(args[0])
		n, ok2 := cint(args[1])
		if ok1 && ok2 {
			return TimeV{in.ts.Int(s*1e9 + n)}
		}
		panic(unsupported("time.Unix with symbolic arguments"))
	})
	r("(time.Duration).Seconds", func(in *Interp, caller *frame, fn *ssa.Function, args []Value) Value {
		d, ok := cint(args[0])
		if !ok {
			panic(unsupported("Duration.Seconds symbolic"))
		}
		return time.Duration(d).Seconds()
	})
	r("(time.Duration).String", func(in *Interp, caller *frame, fn *ssa.Function, args []Value) Value {
		d, ok := cint(args[0])
		if !ok {
			return in.ts.App("fmtdur", StrSort, args[0].(*Term))
		}
		return in.ts.Str(time.Duration(d).String())
	})
	r("time.NewTicker", func(in *Interp, caller *frame, fn *ssa.Function, args []Value) Value {
		// *time.Ticker{C <-chan Time, r runtimeTimer}: field 0 is the channel
		var cell Value = Struct{&ChanV{Kind: "ticker"}, nil}
		return Ptr(&cell)
	})
	r("(*time.Ticker).Stop", func(in *Interp, caller *frame, fn *ssa.Function, args []Value) Value { return nil })
	r("time.Sleep", func(in *Interp, caller *frame, fn *ssa.Function, args []Value) Value { return nil })
}
