package main

// Library functions a harmless refactoring may start to use: evaluated natively when every argument is concrete,
// "unsupported" (=> the path is inconclusive, never wrong) when an argument is symbolic. Intrinsics registered earlier
// (with a symbolic model) take precedence.

import (
	"bytes"
	"fmt"
	"go/types"
	"math"
	"path"
	"path/filepath"
	"reflect"
	"strconv"
	"strings"
	"unicode"
	"unicode/utf8"

	"golang.org/x/tools/go/ssa"
)

var nativeTable = map[string]interface{}{
	"strings.Repeat": strings.Repeat, "strings.Fields": strings.Fields, "strings.Title": strings.Title, "strings.Count": strings.Count,
	"strings.LastIndex": strings.LastIndex, "strings.IndexByte": strings.IndexByte, "strings.TrimLeft": strings.TrimLeft,
	"strings.TrimRight": strings.TrimRight, "strings.SplitN": strings.SplitN, "strings.ContainsAny": strings.ContainsAny,
	"strings.ContainsRune": strings.ContainsRune, "strings.IndexAny": strings.IndexAny, "strings.Compare": strings.Compare,
	"strings.ToTitle": strings.ToTitle, "strings.IndexRune": strings.IndexRune, "strings.SplitAfter": strings.SplitAfter,
	"strings.Index": strings.Index, "strings.EqualFold": strings.EqualFold, "strings.ToLower": strings.ToLower, "strings.ToUpper": strings.ToUpper,
	"strings.Trim": strings.Trim, "strings.TrimSpace": strings.TrimSpace, "strings.Split": strings.Split, "strings.Replace": strings.Replace,
	"strings.ReplaceAll": strings.ReplaceAll, "strings.TrimPrefix": strings.TrimPrefix, "strings.TrimSuffix": strings.TrimSuffix,
	"bytes.HasPrefix": bytes.HasPrefix, "bytes.HasSuffix": bytes.HasSuffix, "bytes.Contains": bytes.Contains, "bytes.TrimSpace": bytes.TrimSpace,
	"bytes.Join": bytes.Join, "bytes.Repeat": bytes.Repeat, "bytes.Index": bytes.Index, "bytes.Split": bytes.Split, "bytes.ToLower": bytes.ToLower,
	"bytes.ToUpper": bytes.ToUpper, "bytes.Trim": bytes.Trim, "bytes.TrimPrefix": bytes.TrimPrefix, "bytes.TrimSuffix": bytes.TrimSuffix,
	"bytes.Fields": bytes.Fields, "bytes.Count": bytes.Count, "bytes.IndexByte": bytes.IndexByte, "bytes.LastIndex": bytes.LastIndex,
	"bytes.TrimRight": bytes.TrimRight, "bytes.TrimLeft": bytes.TrimLeft, "bytes.Title": bytes.Title, "bytes.EqualFold": bytes.EqualFold,
	"strconv.ParseBool": strconv.ParseBool, "strconv.Quote": strconv.Quote, "strconv.Unquote": strconv.Unquote, "strconv.FormatInt": strconv.FormatInt,
	"strconv.FormatUint": strconv.FormatUint, "strconv.FormatBool": strconv.FormatBool,
	"unicode.IsUpper": unicode.IsUpper, "unicode.IsLower": unicode.IsLower, "unicode.IsDigit": unicode.IsDigit, "unicode.IsLetter": unicode.IsLetter,
	"unicode.IsSpace": unicode.IsSpace, "unicode.IsPunct": unicode.IsPunct, "unicode.ToLower": unicode.ToLower, "unicode.ToUpper": unicode.ToUpper,
	"unicode/utf8.RuneCountInString": utf8.RuneCountInString, "unicode/utf8.ValidString": utf8.ValidString, "unicode/utf8.RuneLen": utf8.RuneLen,
	"unicode/utf8.Valid": utf8.Valid, "unicode/utf8.RuneCount": utf8.RuneCount,
	"path/filepath.Base": filepath.Base, "path/filepath.Ext": filepath.Ext, "path/filepath.Dir": filepath.Dir, "path/filepath.Clean": filepath.Clean,
	"path/filepath.IsAbs": filepath.IsAbs, "path.Base": path.Base, "path.Ext": path.Ext, "path.Dir": path.Dir, "path.Clean": path.Clean,
	"math.Max": math.Max, "math.Min": math.Min, "math.Abs": math.Abs, "math.Floor": math.Floor, "math.Ceil": math.Ceil, "math.Sqrt": math.Sqrt,
	"math.Log2": math.Log2,
}

func registerNative(P *Program) {
	for name, fn := range nativeTable {
		if _, taken := P.intr[name]; taken {
			continue
		}
		name, fn := name, fn
		P.reg(name, func(in *Interp, caller *frame, f *ssa.Function, args []Value) Value {
			return in.callNative(name, reflect.ValueOf(fn), args)
		})
	}
}

func (in *Interp) callNative(name string, fv reflect.Value, args []Value) Value {
	ft := fv.Type()
	if ft.IsVariadic() || ft.NumIn() != len(args) {
		panic(unsupported(name + ": unexpected arity"))
	}
	ins := make([]reflect.Value, len(args))
	for i, a := range args {
		v, ok := in.toNative(a, ft.In(i))
		if !ok {
			panic(unsupported(name + ": symbolic argument"))
		}
		ins[i] = v
	}
	outs := fv.Call(ins)
	res := make([]Value, len(outs))
	for i, o := range outs {
		res[i] = in.fromNative(o)
	}
	if len(res) == 1 {
		return res[0]
	}
	return Tuple(res)
}

func (in *Interp) toNative(a Value, t reflect.Type) (reflect.Value, bool) {
	switch t.Kind() {
	case reflect.String:
		if s, ok := cstr(a); ok {
			return reflect.ValueOf(s).Convert(t), true
		}
	case reflect.Bool:
		if x, ok := a.(*Term); ok && x.IsConst() && x.sort.K == SBool {
			return reflect.ValueOf(x.BoolVal()), true
		}
	case reflect.Int, reflect.Int8, reflect.Int16, reflect.Int32, reflect.Int64:
		if x, ok := a.(*Term); ok {
			if c := in.pinnedConst(x); c != nil {
				x = c
			}
			if x.IsConst() && x.sort.K == SBV {
				return reflect.ValueOf(x.SVal()).Convert(t), true
			}
		}
	case reflect.Uint, reflect.Uint8, reflect.Uint16, reflect.Uint32, reflect.Uint64:
		if x, ok := a.(*Term); ok && x.IsConst() && x.sort.K == SBV {
			return reflect.ValueOf(x.u).Convert(t), true
		}
	case reflect.Float64:
		if f, ok := a.(float64); ok {
			return reflect.ValueOf(f), true
		}
	case reflect.Slice:
		sl, ok := a.(SliceV)
		if !ok {
			return reflect.Value{}, false
		}
		switch t.Elem().Kind() {
		case reflect.Uint8:
			if b, ok := concBytes(sl); ok {
				if sl.A == nil && sl.Blob == nil {
					return reflect.Zero(t), true
				}
				return reflect.ValueOf(b), true
			}
		default:
			if sl.Blob != nil {
				return reflect.Value{}, false
			}
			out := reflect.MakeSlice(t, len(sl.A), len(sl.A))
			for i, e := range sl.A {
				v, ok := in.toNative(e, t.Elem())
				if !ok {
					return reflect.Value{}, false
				}
				out.Index(i).Set(v)
			}
			return out, true
		}
	}
	return reflect.Value{}, false
}

func (in *Interp) fromNative(o reflect.Value) Value {
	ts := in.ts
	switch o.Kind() {
	case reflect.String:
		return ts.Str(o.String())
	case reflect.Bool:
		return ts.Bool(o.Bool())
	case reflect.Int, reflect.Int64:
		return ts.BV(64, uint64(o.Int()))
	case reflect.Int32:
		return ts.BV(32, uint64(uint32(o.Int())))
	case reflect.Int16:
		return ts.BV(16, uint64(uint16(o.Int())))
	case reflect.Int8:
		return ts.BV(8, uint64(uint8(o.Int())))
	case reflect.Uint, reflect.Uint64:
		return ts.BV(64, o.Uint())
	case reflect.Uint32:
		return ts.BV(32, o.Uint())
	case reflect.Uint8:
		return ts.BV(8, o.Uint())
	case reflect.Float64:
		return o.Float()
	case reflect.Slice:
		if o.Type().Elem().Kind() == reflect.Uint8 {
			if o.IsNil() {
				return SliceV{}
			}
			return in.mkBytes(o.Bytes())
		}
		if o.IsNil() {
			return SliceV{}
		}
		a := make([]Value, o.Len())
		for i := range a {
			a[i] = in.fromNative(o.Index(i))
		}
		return SliceV{A: a}
	case reflect.Interface:
		if o.IsNil() {
			return Iface{}
		}
		if e, ok := o.Interface().(error); ok {
			return in.newError(ts.Str(e.Error()))
		}
	}
	panic(unsupported(fmt.Sprintf("native result of kind %s", o.Kind())))
}

// sync/atomic on plain integers: the executor runs one logical thread at a time, so these are ordinary loads and stores.
func registerAtomic(P *Program) {
	r := P.reg
	for _, w := range []struct {
		suffix string
		bits   int
	}{{"Int32", 32}, {"Int64", 64}, {"Uint32", 32}, {"Uint64", 64}, {"Uintptr", 64}} {
		w := w
		r("sync/atomic.Add"+w.suffix, func(in *Interp, caller *frame, fn *ssa.Function, args []Value) Value {
			p := args[0].(Ptr)
			if p == nil {
				in.rtPanic("invalid memory address or nil pointer dereference (atomic)")
			}
			nv := in.ts.BvAdd((*p).(*Term), args[1].(*Term))
			*p = nv
			return nv
		})
		r("sync/atomic.Load"+w.suffix, func(in *Interp, caller *frame, fn *ssa.Function, args []Value) Value {
			p := args[0].(Ptr)
			if p == nil {
				in.rtPanic("invalid memory address or nil pointer dereference (atomic)")
			}
			return *p
		})
		r("sync/atomic.Store"+w.suffix, func(in *Interp, caller *frame, fn *ssa.Function, args []Value) Value {
			p := args[0].(Ptr)
			if p == nil {
				in.rtPanic("invalid memory address or nil pointer dereference (atomic)")
			}
			*p = args[1]
			return nil
		})
		r("sync/atomic.Swap"+w.suffix, func(in *Interp, caller *frame, fn *ssa.Function, args []Value) Value {
			p := args[0].(Ptr)
			if p == nil {
				in.rtPanic("invalid memory address or nil pointer dereference (atomic)")
			}
			old := *p
			*p = args[1]
			return old
		})
		r("sync/atomic.CompareAndSwap"+w.suffix, func(in *Interp, caller *frame, fn *ssa.Function, args []Value) Value {
			p := args[0].(Ptr)
			if p == nil {
				in.rtPanic("invalid memory address or nil pointer dereference (atomic)")
			}
			if in.branch(nil, nil, in.ts.Eq((*p).(*Term), args[1].(*Term))) {
				*p = args[2]
				return in.ts.True()
			}
			return in.ts.False()
		})
	}
}

// sync.Map: an ordinary map keyed by interface values (the executor runs one logical thread at a time; vf.Par switches
// threads only at yield points, so every method is atomic as sync.Map promises).
func registerSyncMap(P *Program) {
	r := P.reg
	mapOf := func(in *Interp, v Value) *MapV {
		p, ok := v.(Ptr)
		if !ok || p == nil {
			in.rtPanic("nil *sync.Map")
		}
		key := fmt.Sprintf("syncmap:%p", p)
		m, _ := in.hooks[key].(*MapV)
		if m == nil {
			m = NewMap()
			in.hooks[key] = m
		}
		return m
	}
	keyOf := func(in *Interp, v Value) (types.Type, Value) {
		i, ok := v.(Iface)
		if !ok || i.T == nil {
			panic(unsupported("sync.Map with a nil key"))
		}
		if b, ok := i.T.Underlying().(*types.Basic); !ok || b.Info()&(types.IsString|types.IsInteger) == 0 {
			panic(unsupported("sync.Map key of type " + i.T.String()))
		}
		return i.T, i.V
	}
	r("(*sync.Map).Load", func(in *Interp, caller *frame, fn *ssa.Function, args []Value) Value {
		m := mapOf(in, args[0])
		kt, k := keyOf(in, args[1])
		if e := in.mapFind(m, kt, k); e != nil {
			return Tuple{e.V, in.ts.True()}
		}
		return Tuple{Iface{}, in.ts.False()}
	})
	r("(*sync.Map).Store", func(in *Interp, caller *frame, fn *ssa.Function, args []Value) Value {
		m := mapOf(in, args[0])
		kt, k := keyOf(in, args[1])
		in.mapSet(m, kt, k, args[2])
		return nil
	})
	r("(*sync.Map).LoadOrStore", func(in *Interp, caller *frame, fn *ssa.Function, args []Value) Value {
		m := mapOf(in, args[0])
		kt, k := keyOf(in, args[1])
		if e := in.mapFind(m, kt, k); e != nil {
			return Tuple{e.V, in.ts.True()}
		}
		in.mapSet(m, kt, k, args[2])
		return Tuple{args[2], in.ts.False()}
	})
	r("(*sync.Map).LoadAndDelete", func(in *Interp, caller *frame, fn *ssa.Function, args []Value) Value {
		m := mapOf(in, args[0])
		kt, k := keyOf(in, args[1])
		if e := in.mapFind(m, kt, k); e != nil {
			v := e.V
			in.mapDelete(m, kt, k)
			return Tuple{v, in.ts.True()}
		}
		return Tuple{Iface{}, in.ts.False()}
	})
	r("(*sync.Map).Delete", func(in *Interp, caller *frame, fn *ssa.Function, args []Value) Value {
		m := mapOf(in, args[0])
		kt, k := keyOf(in, args[1])
		in.mapDelete(m, kt, k)
		return nil
	})
}
