package main

// Front end: load /repo (+ overlay harness files) with go/packages, build SSA. Regenerated on every run.

import (
	"fmt"
	"go/ast"
	"go/types"
	"os"
	"path/filepath"
	"strings"

	"golang.org/x/tools/go/packages"
	"golang.org/x/tools/go/ssa"
	"golang.org/x/tools/go/ssa/ssautil"
)

const modPath = "github.com/lidofinance/dc4bc"

type IntrinsicHandler func(in *Interp, caller *frame, fn *ssa.Function, args []Value) Value

type Program struct {
	prog    *ssa.Program
	pkgs    []*packages.Package
	byPath  map[string]*ssa.Package
	intr    map[string]IntrinsicHandler
	interp  map[string]bool   // extra (non-dc4bc) package paths whose SSA bodies are interpreted
	embeds  map[string]string // "pkgpath.Var" -> file content
	repo    string
	LoadSec float64
}

// extra packages interpreted from their real SSA bodies (small, pure Go)
var interpPkgs = map[string]bool{
	"errors":                          true,
	"github.com/ferranbt/fastssz":     true,
	"github.com/pkg/errors":           false,
	"encoding/binary":                 true,
	"math/bits":                       true,
	"sync/atomic":                     true,
	"github.com/google/go-cmp/cmp":    false,
	"github.com/censync/go-dto":       false,
	"github.com/censync/go-validator": false,
}

// single library functions interpreted from their real SSA bodies (pure Go, call back into interpreted closures)
var interpFns = map[string]bool{
	"sort.Search": true, "sort.Find": true, "sort.SearchInts": true, "sort.SearchStrings": true,
	"sort.SearchFloat64s": true, "slices.Index": true, "slices.Contains": true,
}

// foreign packages whose package initialiser is executed by the engine
var initPkgs = map[string]bool{
	"github.com/ferranbt/fastssz": true,
}

func LoadProgram(repo string, overlay map[string][]byte, patterns []string) (*Program, error) {
	cfg := &packages.Config{
		Mode: packages.NeedName | packages.NeedFiles | packages.NeedCompiledGoFiles | packages.NeedImports |
			packages.NeedDeps | packages.NeedTypes | packages.NeedSyntax | packages.NeedTypesInfo |
			packages.NeedTypesSizes | packages.NeedModule | packages.NeedEmbedFiles,
		Dir:     repo,
		Overlay: overlay,
		Env: append(os.Environ(), "GOFLAGS=-mod=mod", "GOPROXY=off", "GOSUMDB=off", "GOTOOLCHAIN=local",
			"CGO_ENABLED=0"),
	}
	pkgs, err := packages.Load(cfg, patterns...)
	if err != nil {
		return nil, err
	}
	nerr := 0
	packages.Visit(pkgs, nil, func(p *packages.Package) {
		for _, e := range p.Errors {
			if strings.HasPrefix(p.PkgPath, modPath) {
				fmt.Fprintf(os.Stderr, "load error in %s: %v\n", p.PkgPath, e)
				nerr++
			}
		}
	})
	if nerr > 0 {
		return nil, fmt.Errorf("%d load errors in dc4bc packages (tree does not compile with the harness overlay)", nerr)
	}
	prog, _ := ssautil.AllPackages(pkgs, ssa.InstantiateGenerics|ssa.SanityCheckFunctions&0)
	prog.Build()
	P := &Program{prog: prog, pkgs: pkgs, byPath: map[string]*ssa.Package{}, intr: map[string]IntrinsicHandler{},
		interp: interpPkgs, embeds: map[string]string{}, repo: repo}
	for _, p := range prog.AllPackages() {
		P.byPath[p.Pkg.Path()] = p
	}
	packages.Visit(pkgs, nil, func(p *packages.Package) {
		if !strings.HasPrefix(p.PkgPath, modPath) {
			return
		}
		P.scanEmbeds(p)
	})
	registerIntrinsics(P)
	return P, nil
}

func (P *Program) scanEmbeds(p *packages.Package) {
	for i, f := range p.Syntax {
		if i >= len(p.CompiledGoFiles) {
			break
		}
		dir := filepath.Dir(p.CompiledGoFiles[i])
		for _, d := range f.Decls {
			gd, ok := d.(*ast.GenDecl)
			if !ok {
				continue
			}
			for _, s := range gd.Specs {
				vs, ok := s.(*ast.ValueSpec)
				if !ok || len(vs.Names) != 1 {
					continue
				}
				for _, doc := range []*ast.CommentGroup{vs.Doc, gd.Doc} {
					if doc == nil {
						continue
					}
					for _, c := range doc.List {
						if !strings.HasPrefix(c.Text, "//go:embed ") {
							continue
						}
						pat := strings.TrimSpace(strings.TrimPrefix(c.Text, "//go:embed "))
						data, err := os.ReadFile(filepath.Join(dir, pat))
						if err == nil {
							P.embeds[p.PkgPath+"."+vs.Names[0].Name] = string(data)
						}
					}
				}
			}
		}
	}
}

func (P *Program) isOwn(path string) bool {
	return path == modPath || strings.HasPrefix(path, modPath+"/")
}

func fnPkgPath(fn *ssa.Function) string {
	if fn.Pkg != nil {
		return fn.Pkg.Pkg.Path()
	}
	if o := fn.Origin(); o != nil && o.Pkg != nil {
		return o.Pkg.Pkg.Path()
	}
	if fn.Object() != nil && fn.Object().Pkg() != nil {
		return fn.Object().Pkg().Path()
	}
	if p := fn.Parent(); p != nil {
		return fnPkgPath(p)
	}
	return ""
}

func (P *Program) interpretable(fn *ssa.Function) bool {
	if fn.Synthetic != "" && fn.Pkg == nil && fn.Origin() == nil {
		return true // wrappers, bound methods, thunks
	}
	path := fnPkgPath(fn)
	if P.isOwn(path) {
		return true
	}
	if interpFns[fn.String()] {
		return true
	}
	for p := fn.Parent(); p != nil; p = p.Parent() {
		if interpFns[p.String()] { // closures of interpreted library functions
			return true
		}
	}
	if o := fn.Origin(); o != nil && interpFns[o.String()] {
		return true
	}
	return P.interp[path]
}

func (P *Program) intrinsic(fn *ssa.Function) IntrinsicHandler {
	if h, ok := P.intr[fn.String()]; ok {
		return h
	}
	if o := fn.Origin(); o != nil {
		if h, ok := P.intr[o.String()]; ok {
			return h
		}
	}
	// foreign package initialisers are not run
	if fn.Name() == "init" && fn.Synthetic != "" && fn.Pkg != nil && !P.isOwn(fn.Pkg.Pkg.Path()) && !initPkgs[fn.Pkg.Pkg.Path()] {
		return func(in *Interp, caller *frame, fn *ssa.Function, args []Value) Value { return nil }
	}
	return nil
}

func (P *Program) reg(name string, h IntrinsicHandler) { P.intr[name] = h }

// FindFunc finds a package-level function "pkgpath.Name".
func (P *Program) FindFunc(pkgPath, name string) *ssa.Function {
	p := P.byPath[pkgPath]
	if p == nil {
		return nil
	}
	return p.Func(name)
}

// namedType looks up a (possibly unexported) named type in a loaded package.
func (P *Program) namedType(pkgPath, name string) types.Type {
	p := P.byPath[pkgPath]
	if p == nil {
		return nil
	}
	o := p.Pkg.Scope().Lookup(name)
	if o == nil {
		return nil
	}
	return o.Type()
}
