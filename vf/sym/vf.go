// Package vf is the verification shim used by harness files (symbolic variant).
// The bodies are never executed: the gosx engine intercepts every call by name.
package vf

import "time"

func sym() { panic("vf: symbolic shim executed natively") }

func Int(name string) int                          { sym(); return 0 }
func Int64(name string) int64                      { sym(); return 0 }
func Uint64(name string) uint64                    { sym(); return 0 }
func Uint8(name string) uint8                      { sym(); return 0 }
func Byte(name string) byte                        { sym(); return 0 }
func Bool(name string) bool                        { sym(); return false }
func Str(name string) string                       { sym(); return "" }
func Time(name string) time.Time                   { sym(); return time.Time{} }
func TimeZ(name string) time.Time                  { sym(); return time.Time{} }
func ZeroTime() time.Time                          { sym(); return time.Time{} }
func Now() time.Time                               { sym(); return time.Time{} }
func Bytes(name string, n int) []byte              { sym(); return nil }
func OpaqueBytes(name string) []byte               { sym(); return nil }
func Choose(name string, n int) int                { sym(); return 0 }
func Assume(c bool)                                { sym() }
func Assert(label string, c bool)                  { sym() }
func Unreachable(label string)                     { sym() }
func Record(key string, vals ...interface{})       { sym() }
func Param(name string) string                     { sym(); return "" }
func ParamInt(name string) int                     { sym(); return 0 }
func Stop()                                        { sym() }
func Symbolic() bool                               { sym(); return true }
func And(cs ...bool) bool                          { sym(); return false }
func Or(cs ...bool) bool                           { sym(); return false }
func Implies(a, b bool) bool                       { sym(); return false }
func Not(a bool) bool                              { sym(); return false }
func Iff(a, b bool) bool                           { sym(); return false }
func Eq(a, b interface{}) bool                     { sym(); return false }
func EqLoose(a, b interface{}) bool                { sym(); return false }
func NoLeak(label string, out interface{}, secrets ...interface{}) { sym() }
func BytesEq(a, b []byte) bool                     { sym(); return false }
func StrEq(a, b string) bool                       { sym(); return false }
func IteInt(c bool, a, b int) int                  { sym(); return 0 }
func Decide(c bool) bool                           { sym(); return false }
func Concrete(x int) int                           { sym(); return 0 }
func Injective(uf string)                          { sym() }
func UFBytes(name string, n int, in ...[]byte) []byte { sym(); return nil }
func UFBool(name string, in ...[]byte) bool        { sym(); return false }
func Par(f, g func())                              { sym() }
func Permute(on bool)                               { sym() }
func Yield()                                       { sym() }
func Note(s string)                                { sym() }

// native-only helpers (no-ops symbolically)
func RegisterUFBytes(name string, f func(in ...[]byte) []byte) {}
func RegisterUFBool(name string, f func(in ...[]byte) bool)    {}
func Run(h func()) interface{}                                 { sym(); return nil }
func Reset()                                                   {}

var (
	Violated     []string
	AssumeFailed bool
)
