// Package vf (native variant): replays a solver model against the real build.
// Values come from the JSON file named by VF_MODEL: {"params":{..},"model":{name:{sort,u,i,b,s}},"choices":{name:int}}.
package vf

import (
	"bytes"
	"encoding/base64"
	"encoding/hex"
	"encoding/json"
	"fmt"
	"os"
	"reflect"
	"runtime"
	"strconv"
	"strings"
	"sync/atomic"
	"time"
)

type modelVal struct {
	Sort string `json:"sort"`
	U    uint64 `json:"u"`
	I    int64  `json:"i"`
	B    bool   `json:"b"`
	S    []byte `json:"s"`
}

type input struct {
	Params  map[string]string   `json:"params"`
	Model   map[string]modelVal `json:"model"`
	Choices map[string]int      `json:"choices"`
}

var (
	in           input
	loaded       bool
	seenSym      = map[string]int{}
	seenCh       = map[string]int{}
	Violated     []string
	AssumeFailed bool
	Asserted     = map[string]int{}
)

const zeroTimeNs int64 = -(1 << 62)

func load() {
	if loaded {
		return
	}
	loaded = true
	p := os.Getenv("VF_MODEL")
	if p == "" {
		panic("vf: VF_MODEL not set")
	}
	b, err := os.ReadFile(p)
	if err != nil {
		panic(err)
	}
	if err := json.Unmarshal(b, &in); err != nil {
		panic(err)
	}
}

// Reset clears per-run state (one replay per process, but be safe).
func Reset() {
	seenSym = map[string]int{}
	seenCh = map[string]int{}
	Violated = nil
	AssumeFailed = false
	Asserted = map[string]int{}
}

func uniq(m map[string]int, name string) string {
	k := m[name]
	m[name] = k + 1
	if k == 0 {
		return name
	}
	// the engine disambiguates repeated names as name#1, name#2, ...
	return name + "#" + strconv.Itoa(k)
}

func val(name string) (modelVal, bool) {
	load()
	v, ok := in.Model[uniq(seenSym, name)]
	return v, ok
}

func Int(name string) int       { v, _ := val(name); return int(int64(v.U)) }
func Int64(name string) int64   { v, _ := val(name); return int64(v.U) }
func Uint64(name string) uint64 { v, _ := val(name); return v.U }
func Uint8(name string) uint8   { v, _ := val(name); return uint8(v.U) }
func Byte(name string) byte     { v, _ := val(name); return byte(v.U) }
func Bool(name string) bool     { v, _ := val(name); return v.B }
func Str(name string) string    { v, _ := val(name); return string(v.S) }

func nsToTime(ns int64) time.Time {
	if ns == zeroTimeNs {
		return time.Time{}
	}
	return time.Unix(0, ns).UTC()
}

func Time(name string) time.Time {
	v, ok := val(name)
	if !ok {
		return time.Unix(0, 0).UTC()
	}
	return nsToTime(v.I)
}
func TimeZ(name string) time.Time { return Time(name) }
func ZeroTime() time.Time         { return time.Time{} }

var nowCnt int

func Now() time.Time {
	name := "time.Now"
	v, ok := val(name)
	if !ok {
		return time.Now().UTC()
	}
	return nsToTime(v.I)
}

func Bytes(name string, n int) []byte {
	out := make([]byte, n)
	for i := range out {
		v, _ := val(fmt.Sprintf("%s[%d]", name, i))
		out[i] = byte(v.U)
	}
	return out
}

func OpaqueBytes(name string) []byte {
	v, _ := val(name)
	if v.S == nil {
		return []byte{}
	}
	return v.S
}

func Choose(name string, n int) int {
	load()
	c, ok := in.Choices[uniq(seenCh, name)]
	if !ok || c < 0 || c >= n {
		return 0
	}
	return c
}

func Assume(c bool) {
	if !c {
		AssumeFailed = true
		fmt.Println("VF-ASSUME-FAILED")
		panic(stop{})
	}
}

type stop struct{}

func Assert(label string, c bool) {
	Asserted[label]++
	if !c {
		Violated = append(Violated, label)
		fmt.Println("VF-VIOLATED " + label)
	}
}

func Unreachable(label string) { Assert(label, false) }

func Record(key string, vals ...interface{}) {
	fmt.Println("VF-RECORD", key, vals)
}

func Param(name string) string {
	load()
	return in.Params[name]
}

func ParamInt(name string) int {
	n, _ := strconv.Atoi(Param(name))
	return n
}

func Stop()          { panic(stop{}) }
func Symbolic() bool { return false }

func And(cs ...bool) bool {
	for _, c := range cs {
		if !c {
			return false
		}
	}
	return true
}
func Or(cs ...bool) bool {
	for _, c := range cs {
		if c {
			return true
		}
	}
	return false
}
func Implies(a, b bool) bool { return !a || b }
func Not(a bool) bool        { return !a }
func Iff(a, b bool) bool     { return a == b }

// Eq: structural equality with the engine's conventions (time instants compared with Equal).
func Eq(a, b interface{}) bool { loose = false; return deepEq(reflect.ValueOf(a), reflect.ValueOf(b)) }

// EqLoose: like Eq but nil and empty maps/slices are the same.
func EqLoose(a, b interface{}) bool {
	loose = true
	defer func() { loose = false }()
	return deepEq(reflect.ValueOf(a), reflect.ValueOf(b))
}

var loose bool

var timeType = reflect.TypeOf(time.Time{})

func deepEq(a, b reflect.Value) bool {
	if !a.IsValid() || !b.IsValid() {
		return a.IsValid() == b.IsValid()
	}
	if a.Type() != b.Type() {
		return false
	}
	if a.Type() == timeType {
		return a.Interface().(time.Time).Equal(b.Interface().(time.Time))
	}
	switch a.Kind() {
	case reflect.Ptr, reflect.Interface:
		if a.IsNil() || b.IsNil() {
			return a.IsNil() == b.IsNil()
		}
		return deepEq(a.Elem(), b.Elem())
	case reflect.Struct:
		for i := 0; i < a.NumField(); i++ {
			if !deepEq(a.Field(i), b.Field(i)) {
				return false
			}
		}
		return true
	case reflect.Slice:
		if a.IsNil() != b.IsNil() && !(loose && a.Len() == 0 && b.Len() == 0) {
			return false
		}
		fallthrough
	case reflect.Array:
		if a.Len() != b.Len() {
			return false
		}
		for i := 0; i < a.Len(); i++ {
			if !deepEq(a.Index(i), b.Index(i)) {
				return false
			}
		}
		return true
	case reflect.Map:
		if a.Len() != b.Len() {
			return false
		}
		if a.IsNil() != b.IsNil() && !(loose && a.Len() == 0) {
			return false
		}
		for _, k := range a.MapKeys() {
			bv := b.MapIndex(k)
			if !bv.IsValid() || !deepEq(a.MapIndex(k), bv) {
				return false
			}
		}
		return true
	case reflect.Func:
		return a.IsNil() && b.IsNil()
	}
	if a.CanInterface() && b.CanInterface() {
		return reflect.DeepEqual(a.Interface(), b.Interface())
	}
	switch a.Kind() {
	case reflect.Bool:
		return a.Bool() == b.Bool()
	case reflect.Int, reflect.Int8, reflect.Int16, reflect.Int32, reflect.Int64:
		return a.Int() == b.Int()
	case reflect.Uint, reflect.Uint8, reflect.Uint16, reflect.Uint32, reflect.Uint64, reflect.Uintptr:
		return a.Uint() == b.Uint()
	case reflect.String:
		return a.String() == b.String()
	case reflect.Float32, reflect.Float64:
		return a.Float() == b.Float()
	}
	return false
}

func BytesEq(a, b []byte) bool { return bytes.Equal(a, b) }
func StrEq(a, b string) bool   { return a == b }
func IteInt(c bool, a, b int) int {
	if c {
		return a
	}
	return b
}
// Permute: all map iteration orders (symbolic mode only; natively Go randomises the order itself).
func Permute(on bool) {}
func Decide(c bool) bool  { return c }
func Concrete(x int) int  { return x }
func Injective(uf string) {}
func Note(s string)       {}

// UFBytes / UFBool have no native meaning by themselves; harnesses that use them provide real implementations
// through RegisterUF.
var ufBytes = map[string]func(in ...[]byte) []byte{}
var ufBool = map[string]func(in ...[]byte) bool{}

func RegisterUFBytes(name string, f func(in ...[]byte) []byte) { ufBytes[name] = f }
func RegisterUFBool(name string, f func(in ...[]byte) bool)    { ufBool[name] = f }

func UFBytes(name string, n int, in ...[]byte) []byte {
	if f, ok := ufBytes[name]; ok {
		return f(in...)
	}
	panic("vf: no native implementation for UF " + name)
}
func UFBool(name string, in ...[]byte) bool {
	if f, ok := ufBool[name]; ok {
		return f(in...)
	}
	panic("vf: no native implementation for UF " + name)
}

// Run executes a harness natively, catching vf.Stop / failed assumptions.
func Run(h func()) (panicked interface{}) {
	defer func() {
		if r := recover(); r != nil {
			if _, ok := r.(stop); ok {
				return
			}
			panicked = r
		}
	}()
	h()
	return nil
}

// ---- logical threads (native twin of the engine scheduler) ----
// Two goroutines, one token. A goroutine may pass a Yield point only while it holds the token. A goroutine that gets
// stuck in a real sync.Mutex held by the parked one cannot yield: the parked one notices (no progress of the holder for
// stealAfter) and takes the token, exactly like the engine's "blocked" hand-over.

type nthread struct {
	gid    int64
	done   int32
	parked int32 // 1 while waiting for the token in acquire
}

var (
	nthreads  [2]*nthread
	ncur      int32
	nactive   bool
	npre      int
	nbound    = 2
	nabort    atomic.Value
	nprogress int64
)

const stealAfter = 400 * time.Millisecond

func curGID() int64 {
	var buf [64]byte
	n := runtime.Stack(buf[:], false)
	// "goroutine 123 ["
	s := string(buf[:n])
	s = strings.TrimPrefix(s, "goroutine ")
	if i := strings.IndexByte(s, ' '); i > 0 {
		id, _ := strconv.ParseInt(s[:i], 10, 64)
		return id
	}
	return -1
}

func myTid() int {
	g := curGID()
	for i, t := range nthreads {
		if t != nil && t.gid == g {
			return i
		}
	}
	return -1
}

// acquire parks the calling thread until it holds the token (stealing it from a holder that makes no progress).
func acquire(me int) {
	last := atomic.LoadInt64(&nprogress)
	lastChange := time.Now()
	if atomic.LoadInt32(&ncur) != int32(me) {
		atomic.StoreInt32(&nthreads[me].parked, 1)
		defer atomic.StoreInt32(&nthreads[me].parked, 0)
	}
	for atomic.LoadInt32(&ncur) != int32(me) {
		time.Sleep(200 * time.Microsecond)
		if p := atomic.LoadInt64(&nprogress); p != last {
			last, lastChange = p, time.Now()
		} else if time.Since(lastChange) > stealAfter {
			other := 1 - me
			if atomic.LoadInt32(&nthreads[other].done) == 0 {
				atomic.StoreInt32(&ncur, int32(me)) // the holder is stuck in a mutex we hold
			}
			lastChange = time.Now()
		}
	}
	atomic.AddInt64(&nprogress, 1)
}

// Yield: a possible context switch (the recorded schedule decides).
func Yield() {
	if !nactive {
		return
	}
	me := myTid()
	if me < 0 {
		return
	}
	acquire(me)
	other := 1 - me
	// The engine hands a released mutex to its waiter at once. Natively the waiter, woken by our Unlock, runs without the
	// token until its next yield point: let it get there (it then parks) before we go on, so that it - not we - wins the
	// mutex. If it is blocked in a mutex we hold it never parks: give up after a short while.
	for i := 0; i < 150 && atomic.LoadInt32(&nthreads[other].done) == 0 && atomic.LoadInt32(&nthreads[other].parked) == 0 && nthreads[other].gid != 0; i++ {
		time.Sleep(200 * time.Microsecond)
	}
	if atomic.LoadInt32(&nthreads[other].done) != 0 || npre >= nbound {
		return
	}
	c := Choose("sched", 2)
	if os.Getenv("VF_SCHED_TRACE") != "" {
		var pcs [6]uintptr
		k := runtime.Callers(2, pcs[:])
		fr := runtime.CallersFrames(pcs[:k])
		where := ""
		for i := 0; i < 4; i++ {
			f, more := fr.Next()
			where += " < " + f.Function[strings.LastIndex(f.Function, "/")+1:]
			if !more {
				break
			}
		}
		fmt.Fprintf(os.Stderr, "VF-SCHED thread=%d yield#%d switch=%d%s\n", me, len(seenCh), c, where)
	}
	if c == 1 {
		npre++
		atomic.StoreInt32(&ncur, int32(other))
		acquire(me)
	}
}

func Par(f, g func()) {
	load()
	if b, ok := in.Params["preemptions"]; ok {
		nbound, _ = strconv.Atoi(b)
	}
	nthreads[0] = &nthread{gid: curGID()}
	nthreads[1] = &nthread{}
	atomic.StoreInt32(&ncur, 0)
	nactive, npre = true, 0
	started := make(chan struct{})
	finished := make(chan struct{})
	go func() {
		nthreads[1].gid = curGID()
		close(started)
		defer func() {
			if r := recover(); r != nil {
				nabort.Store(fmt.Sprint(r))
			}
			atomic.StoreInt32(&nthreads[1].done, 1)
			atomic.StoreInt32(&ncur, 0)
			close(finished)
		}()
		acquire(1)
		g()
	}()
	<-started
	if Choose("sched", 2) == 1 {
		atomic.StoreInt32(&ncur, 1)
		acquire(0)
	}
	f()
	atomic.StoreInt32(&nthreads[0].done, 1)
	atomic.StoreInt32(&ncur, 1)
	<-finished
	nactive = false
	if a := nabort.Load(); a != nil {
		panic(a)
	}
}

// NoLeak (native): the JSON form of out must not contain any of the secrets in a common encoding (raw, hex, base64
// std/url/raw), searched recursively through JSON strings that are themselves base64 of JSON or of binary data.
func NoLeak(label string, out interface{}, secrets ...interface{}) {
	bz, err := json.Marshal(out)
	if err != nil {
		Assert(label, false)
		return
	}
	var needles [][]byte
	for _, s := range secrets {
		switch x := s.(type) {
		case nil:
		case []byte:
			if len(x) >= 8 {
				needles = append(needles, x)
			}
		case string:
			if len(x) >= 8 {
				needles = append(needles, []byte(x))
			}
		case interface{ MarshalBinary() ([]byte, error) }:
			if rv := reflect.ValueOf(x); rv.Kind() == reflect.Ptr && rv.IsNil() {
				continue
			}
			if b, err := x.MarshalBinary(); err == nil && len(b) >= 8 {
				needles = append(needles, b)
			}
		}
	}
	Asserted[label]++
	Asserted[label+":control"]++
	if leakScan(bz, needles, 0) {
		Violated = append(Violated, label)
		fmt.Println("VF-VIOLATED " + label)
	}
}

func leakScan(hay []byte, needles [][]byte, depth int) bool {
	if depth > 6 {
		return false
	}
	for _, n := range needles {
		if bytes.Contains(hay, n) || bytes.Contains(hay, []byte(hex.EncodeToString(n))) {
			return true
		}
		for _, enc := range []*base64.Encoding{base64.StdEncoding, base64.URLEncoding, base64.RawStdEncoding, base64.RawURLEncoding} {
			if bytes.Contains(hay, []byte(enc.EncodeToString(n))) {
				return true
			}
		}
	}
	var v interface{}
	if json.Unmarshal(hay, &v) == nil {
		return leakWalk(v, needles, depth)
	}
	return false
}

func leakWalk(v interface{}, needles [][]byte, depth int) bool {
	switch x := v.(type) {
	case map[string]interface{}:
		for k, e := range x {
			if leakWalk(k, needles, depth) || leakWalk(e, needles, depth) {
				return true
			}
		}
	case []interface{}:
		for _, e := range x {
			if leakWalk(e, needles, depth) {
				return true
			}
		}
	case string:
		for _, enc := range []*base64.Encoding{base64.StdEncoding, base64.URLEncoding, base64.RawStdEncoding, base64.RawURLEncoding} {
			if d, err := enc.DecodeString(x); err == nil && len(d) > 0 {
				if leakScan(d, needles, depth+1) {
					return true
				}
			}
		}
		if d, err := hex.DecodeString(x); err == nil && len(d) > 0 {
			if leakScan(d, needles, depth+1) {
				return true
			}
		}
	}
	return false
}
